#!/bin/bash
# tools/bounded.sh <prop> <repo-dir> <tier> <out.json> [extra args]: runs the BOUNDED stand-in of a
# property (bounded/<prop lower>/main.go) against the given repository tree. Exit 0: no failing
# input within the bound; 1: failing input(s) in <out.json>; 2: no stand-in for this property;
# 3: build fault. Nothing is kept outside <out.json>.
set -u
D="$(cd "$(dirname "$0")/.." && pwd)/bounded"
# which driver serves which property (C07 shares the cache driver of C06, C16 the pipeline driver of C14)
driver() { case "$1" in C07) echo c06;; C16) echo c14;; *) echo "$1" | tr 'A-Z' 'a-z';; esac; }
if [ "$1" = "--has" ]; then [ -d "$D/$(driver "$2")" ]; exit $?; fi
PROP="$1"; REPO="$(readlink -f "$2")"; TIER="$3"; OUT="$4"; shift 4
P=$(driver "$PROP")
[ -d "$D/$P" ] || exit 2
export GOFLAGS=-mod=mod GOPROXY=off GOSUMDB=off GOTOOLCHAIN=local CGO_ENABLED=0
case "$PROP:$TIER" in
  C01:quick) ARGS="-segs 3";;
  C01:*) ARGS="-segs 4";;
  C02:*) ARGS="-len 2";;
  C03:quick) ARGS="-segs 2";;
  C03:*) ARGS="-segs 3";;
  C05:quick) ARGS="-max 32";;
  C05:*) ARGS="-max 128";;
  C06:quick) ARGS="-len 2 -check remote";;
  C06:*) ARGS="-len 3 -check remote";;
  C07:quick) ARGS="-len 2 -check view";;
  C07:*) ARGS="-len 3 -check view";;
  C08:quick) ARGS="-paths 6 -reps 2";;
  C08:*) ARGS="-paths 9 -reps 1";;
  C14:*) ARGS="-check tasks -n 3";;
  C16:*) ARGS="-check try";;
  C09:quick) ARGS="-g 8 -rounds 30";;
  C09:*) ARGS="-g 16 -rounds 300";;
  C12:quick) ARGS="-g 8 -rounds 40";;
  C12:*) ARGS="-g 16 -rounds 400";;
  C13:quick) ARGS="-len 3";;
  C13:*) ARGS="-len 4";;
  C15:quick) ARGS="-res 2 -reps 3";;
  C15:*) ARGS="-res 3 -reps 2";;
  C17:quick) ARGS="-n 5 -args 2 -arglen 2";;
  C17:*) ARGS="-n 7 -args 2 -arglen 3";;
  C18:quick) ARGS="-len 2";;
  C18:*) ARGS="-len 3";;
  C19:quick) ARGS="-len 2";;
  C19:*) ARGS="-len 3";;
  C20:quick) ARGS="-depth 2 -vlen 2 -reps 5";;
  C20:*) ARGS="-depth 2 -vlen 3 -vlen2 1 -reps 40 -bigreps 300";;
  *) ARGS="";;
esac
S=$(mktemp -d /var/tmp/bounded.XXXXXX)
trap 'rm -rf "$S"' EXIT
sed "s|@REPO@|$REPO|" "$D/go.mod.tmpl" > "$S/go.mod"
cp "$REPO/go.sum" "$S/go.sum" 2>/dev/null
cd "$D" || exit 3
if ! go build -modfile="$S/go.mod" -o "$S/standin" "./$P" 2>"$S/build.err"; then
  cat "$S/build.err" >&2; exit 3
fi
# temporary directories of the driver (disk filespaces) live in the scratch directory removed on exit
mkdir -p "$S/tmp"
TMPDIR="$S/tmp" timeout -k 5 3600 "$S/standin" $ARGS "$@" -out "$OUT" 2>"$S/run.err"; RC=$?
cat "$S/run.err" >&2
if [ $RC -ne 0 ] && [ $RC -ne 1 ] || [ ! -s "$OUT" ]; then
  # the real code brought the driver down (fatal error, panic in a goroutine it started, kill):
  # that is a failing run of the bounded space, reported with the runtime's own output
  python3 - "$OUT" "$S/run.err" "$RC" <<'PY'
import json, sys
err = open(sys.argv[2], errors="replace").read()
json.dump({"bound": "the run of the bounded space aborted", "cases": 0, "distinct_nontrivial": 0, "samples": [], "exhaustive": False, "wall_s": 0.0,
           "failures": [{"check": "driver-crashed", "input": "(the run aborted before finishing the bounded space; exit code %s)" % sys.argv[3], "what": err[:6000]}]}, open(sys.argv[1], "w"), indent=1)
PY
  exit 1
fi
exit $RC
