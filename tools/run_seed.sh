#!/bin/bash
# tools/run_seed.sh <seed-id> [props...]: applies seeded/<id>/patch.diff to a scratch copy of /repo and
# runs the given property checks (default: the seed's own property) on it.
ID="$1"; shift
PROPS="$@"; [ -z "$PROPS" ] && PROPS=$(echo $ID | cut -d- -f1)
SCR=/var/tmp/gowp-seed-$ID-$$; rm -rf $SCR; mkdir -p $SCR
rsync -a --exclude .git /repo/ $SCR/
if ! (cd $SCR && patch -p1 -s --no-backup-if-mismatch < /verif/seeded/$ID/patch.diff); then echo "$ID PATCH-FAILED"; rm -rf $SCR; exit 2; fi
for P in $PROPS; do
  OUT=$(cd /verif && ./bin/gowp --prop $P --repo $SCR --no-evidence --workdir $SCR.work 2>&1); RC=$?
  if /verif/tools/bounded.sh --has "$P" && [ $RC -ne 3 ]; then
    B="$SCR.bounded.json"
    if /verif/tools/bounded.sh "$P" "$SCR" quick "$B" >/dev/null 2>&1 || [ -s "$B" ]; then
      BOUT=$(python3 /verif/tools/merge_bounded.py "$P" "$B"); [ $? -eq 1 ] && RC=1
      OUT="$OUT
$BOUT"
    fi
    rm -f "$B"
  fi
  echo "$ID $P rc=$RC $(echo "$OUT" | grep '^VIOLATION' | head -12 | sed 's/.*obligation=//' | tr '\n' ';')"
done
rm -rf $SCR $SCR.work
