#!/usr/bin/env python3
"""tools/mkmut.py <prop> <name> <relfile> — reads OLD\n====\nNEW from stdin, writes
selftest/mutants/<prop>/<name>.patch (diff of /repo/<relfile> with OLD replaced by NEW once).
Never touches /repo."""
import sys, os, difflib
prop, name, rel = sys.argv[1:4]
kind = sys.argv[4] if len(sys.argv) > 4 else "mutants"
old, new = sys.stdin.read().split("\n====\n")
new = new.rstrip("\n") if not old.endswith("\n") else new
src = open("/repo/" + rel).read()
if src.count(old.rstrip("\n")) < 1:
    sys.exit("OLD not found in " + rel)
out = src.replace(old.rstrip("\n"), new.rstrip("\n"), 1)
d = difflib.unified_diff(src.splitlines(True), out.splitlines(True), "a/" + rel, "b/" + rel)
if kind == "mutants":
    path = "/verif/selftest/mutants/%s/%s.patch" % (prop, name)
else:
    path = "/verif/selftest/refactors/%s_%s.patch" % (prop, name)
os.makedirs(os.path.dirname(path), exist_ok=True)
open(path, "w").write("".join(d))
print("wrote", path)
