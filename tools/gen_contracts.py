#!/usr/bin/env python3
"""Generates the repetitive per-method contract blocks for the 16 Filespace methods of the
view types (the text it prints is committed in /repo's verif_contracts.go files)."""
import sys
METHODS = {  # name -> string params
 "Copy": ["src","dest"], "CopyDirectory": ["src","dest"], "CopyFile": ["src","dest"],
 "ReadDir": ["p"], "IsExist": ["p"], "IsFile": ["p"], "IsDir": ["p"], "MkdirAll": ["p"],
 "ReadFile": ["p"], "WriteFile": ["p"], "Filespace": ["p"], "Reader": ["p"], "Writer": ["p"],
 "Remove": ["p"], "RemoveAll": ["p"], "Lstat": ["p"],
}
RO = ["ReadDir","IsExist","IsFile","IsDir","ReadFile","Reader","Lstat","Filespace"]
def wrapper(recvT, recv, basefield, props, callees, extra="", innerfield="fs"):
    out=[]
    for m in METHODS:
        out.append(f"//@ func {recvT}.{m} [{props}]")
        if innerfield: out.append(f"//@   requires {recv}.{innerfield} != nil")
        out.append(f"//@   at_call {callees} requires Confined({recv}.{basefield}, $arg)")
        if extra: out.append(extra)
        out.append("")
    return "\n".join(out)
def forwarder(recvT, recv, innerfield, props, readonly=False):
    """pure forwarders: every path argument reaches the same-named inner method unchanged"""
    out=[]
    for m,ps in METHODS.items():
        out.append(f"//@ func {recvT}.{m} [{props}]")
        out.append(f"//@   requires {recv}.{innerfield} != nil")
        if readonly and m not in RO:
            out.append(f"//@   at_call Filespace.* requires false")
        else:
            conj = " && ".join(f"${i} == $p{i}" for i in range(len(ps)))
            out.append(f"//@   at_call Filespace.{m} requires {conj}")
            out.append(f"//@   at_call Filespace.*,!Filespace.{m} requires false")
        if readonly:
            out.append(f"//@   only_calls {recv}.{innerfield} : " + " ".join(RO))
        out.append("")
    return "\n".join(out)
if __name__=="__main__":
    kind=sys.argv[1]
    if kind=="memwrap":
        print(wrapper("(*FilespaceWrapper)","w","basePath","C03 C01","Filespace.*,NewFilespaceWrapper"))
    if kind=="subfs":
        print(wrapper("SubFS","sub","basePath","C03 C07","Filespace.*,NewSubFS"))
    if kind=="diskfs":
        print(wrapper("(*Filespace)","fs","path","C03 C02","os.*,ioutil.*,disk.*,NewFilespace", innerfield="").replace("Confined(fs.path, $arg)","Confined(fs.path, $arg) || InsideDir(fs.path, $arg)"))
    if kind=="rofs":
        print(forwarder("ROFilespace","ro","fs","C03 C06 C07",readonly=True))
    if kind=="encryptfs":
        print(forwarder("(*EncryptFS)","fs","baseFS","C03 C05"))
