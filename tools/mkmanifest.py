#!/usr/bin/env python3
"""Regenerates /verif/MANIFEST.json from tools/claims.json (per-property claim texts)."""
import json, subprocess, os
root=os.path.dirname(os.path.dirname(os.path.abspath(__file__)))
claims=json.load(open(os.path.join(root,"tools","claims.json")))
ids=["C%02d"%i for i in range(1,21)]
commits=subprocess.check_output(["git","-C","/repo","log","--format=%h %s"]).decode().splitlines()
hooks=[c.split()[0] for c in commits if c.split(" ",1)[1].startswith("verif:")]
tech="contract-based deductive verification: WP/VC generation over go/ssa + SMT (z3/cvc5)"
m={"version":1,"setup_cmd":"./setup.sh",
 "hooks":{"guard":"verif","enable":"contracts are comment-only files verif_contracts.go behind //go:build verif in each package of /repo; the engine parses them directly, no build with the tag is needed","baseline_off_cmd":"cd /repo && GOFLAGS=-mod=mod GOPROXY=off GOSUMDB=off go test -vet=off -count=1 ./...","source_commits":hooks,"add_only":True},
 "engines":[{"name":"gowp","path":"engine/","serves_properties":[i for i in ids if i in claims["claimed"]],"kind_free_text":"self-written weakest-precondition / verification-condition generator over go/ssa (x/tools v0.29.0), contracts as //@ comments in /repo, obligations discharged by z3-new 5.1.0, z3 4.8.12, cvc5 1.0.3"}],
 "checks":[],"not_applicable":[],"notes":claims.get("notes","")}
for i in ids:
    if i in claims["claimed"]:
        c=claims["claimed"][i]
        m["checks"].append({"property_id":i,"quick_cmd":"./check %s --tier quick"%i,"thorough_cmd":"./check %s --tier thorough"%i,"evidence_file":"evidence/%s.json"%i,"replay_cmd_template":"./check %s --replay {path}"%i,"engine":"gowp","level_claimed":{"category":"proof","text":c["text"],"design_ref":c.get("ref","DESIGN §6 "+i)},"level_note":c["note"],"technique":c.get("technique",tech)})
    else:
        m["not_applicable"].append({"property_id":i,"reason":claims["not_applicable"].get(i,"not yet claimed: contracts for this property are still being brought under the VC generator (work in progress, see DESIGN §6)")})
json.dump(m,open(os.path.join(root,"MANIFEST.json"),"w"),indent=1)
print("claimed:",[c["property_id"] for c in m["checks"]])
