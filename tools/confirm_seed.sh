#!/bin/bash
# tools/confirm_seed.sh <seed-dir>: confirms a seeded change in a scratch worktree of /repo HEAD:
# it compiles, the full suite passes with it, the demo fails with it and passes without it.
set -u
D="$(readlink -f "$1")"; ID=$(basename "$D")
export GOFLAGS=-mod=mod GOPROXY=off GOSUMDB=off GOTOOLCHAIN=local
WT=/tmp/wtc-$ID-$$
git -C /repo worktree add -f "$WT" HEAD >/dev/null 2>&1 || { echo "$ID worktree failed"; exit 2; }
cleanup() { git -C /repo worktree remove --force "$WT" >/dev/null 2>&1; rm -rf "$WT"; }
trap cleanup EXIT
cd "$WT"
if ! git apply "$D/patch.diff" 2>/dev/null; then echo "$ID: PATCH-DOES-NOT-APPLY"; exit 3; fi
if ! go build ./... 2>/tmp/seedbuild.$$; then echo "$ID: DOES-NOT-COMPILE"; cat /tmp/seedbuild.$$ | head -5; exit 4; fi
SUITE=$(go test -vet=off -count=1 ./... 2>&1 | grep -v "^ok\|no test files" | head -5)
DEMO=$(cat "$D/demo_path.txt" | tr -d '\n'); PKG=$(dirname "$DEMO")
cp "$D/$(basename $DEMO)" "$WT/$DEMO"
CMD=$(python3 -c "import json;print(json.load(open('$D/meta.json'))['demo_cmd'])")
WITH=$(bash -c "$CMD" 2>&1 | tail -3)
git apply -R "$D/patch.diff"
WITHOUT=$(bash -c "$CMD" 2>&1 | tail -3)
echo "$ID: suite_failures=[${SUITE}]"
echo "$ID: with change: $(echo "$WITH" | tr '\n' ' ' | cut -c1-200)"
echo "$ID: without change: $(echo "$WITHOUT" | tr '\n' ' ' | cut -c1-200)"
if [ -z "$SUITE" ] && echo "$WITH" | grep -q "FAIL" && echo "$WITHOUT" | grep -q "^ok"; then echo "$ID: CONFIRMED"; else echo "$ID: NOT-CONFIRMED"; fi
