#!/bin/bash
# tools/selftest.sh [prop...] — runs every must-fail mutant (selftest/mutants/<prop>/*.patch) and
# every must-not-alarm refactor (selftest/refactors/<prop>_*.patch) on scratch copies, 6 at a time.
cd /verif
PROPS="$@"
[ -z "$PROPS" ] && PROPS=$(ls selftest/mutants)
JOBS=()
for p in $PROPS; do
  for m in selftest/mutants/$p/*.patch; do [ -f "$m" ] && JOBS+=("$p $m violation"); done
  for m in selftest/refactors/${p}_*.patch; do [ -f "$m" ] && JOBS+=("$p $m pass"); done
done
printf '%s\n' "${JOBS[@]}" | xargs -P 6 -L 1 tools/runmut.sh 2>&1 | sort | tee /var/tmp/selftest.out | grep -v "^CAUGHT\|^SILENT-OK"
echo "selftest: $(grep -c '^CAUGHT' /var/tmp/selftest.out) caught, $(grep -c '^SILENT-OK' /var/tmp/selftest.out) silent-ok, $(grep -c '^MISSED' /var/tmp/selftest.out) missed, $(grep -c '^FALSE-ALARM' /var/tmp/selftest.out) false alarms, $(grep -c '^PATCH-FAILED' /var/tmp/selftest.out) patch-failed of ${#JOBS[@]}"
