#!/usr/bin/env python3
"""tools/merge_bounded.py <prop> <bounded.json> [<evidence.json>]: reports the result of the BOUNDED
stand-in of a property. Failing inputs become VIOLATION lines with a replay file that holds the
concrete input; the stand-in's coverage is merged into the evidence file under
coverage.bounded_standins (labelled bounded, not counted among the obligations). Exit 1 iff a
failing input was found."""
import json, os, sys
prop, bfile = sys.argv[1], sys.argv[2]
ev = sys.argv[3] if len(sys.argv) > 3 else None
root = os.path.dirname(os.path.dirname(os.path.abspath(__file__)))
try:
    b = json.load(open(bfile))
except Exception as e:
    print("bounded stand-in of %s produced no result: %s" % (prop, e)); sys.exit(3)
fails = b.get("failures") or []
rdir = os.path.join(root, "replays", prop)
os.makedirs(rdir, exist_ok=True)
for i, f in enumerate(fails):
    path = os.path.join(rdir, "%s_bounded_%s_%d.json" % (prop, f["check"].replace(" ", "_"), i))
    json.dump({"kind": "bounded", "property": prop, "obligation": "%s/bounded/%s" % (prop, f["check"]), "check": f["check"], "input": f["input"], "observed": f["what"], "replay_note": "failing input found by the bounded stand-in on the real code; ./check %s --replay <this file> re-runs it" % prop}, open(path, "w"), indent=1)
    print("VIOLATION property=%s replay=%s obligation=%s/bounded/%s input=%s" % (prop, path, prop, f["check"], f["input"]))
print("%s bounded stand-in: %d cases (%s), %d failing, %.1fs [BOUNDED: not counted as proved]" % (prop, b.get("cases", 0), "exhaustive within the bound" if b.get("exhaustive") else "sampled", len(fails), b.get("wall_s", 0.0)))
if ev and os.path.exists(ev):
    e = json.load(open(ev))
    cov = e.setdefault("coverage", {})
    cov["bounded_standins"] = [{"label": "BOUNDED stand-in (not counted as proved)", "bound": b.get("bound"), "cases": b.get("cases"), "distinct_nontrivial": b.get("distinct_nontrivial"), "exhaustive_within_bound": b.get("exhaustive"), "failing_inputs": len(fails), "samples": (b.get("samples") or [])[:8], "wall_s": b.get("wall_s")}]
    e.setdefault("assumptions", []).append("bounded stand-in: the clauses of %s outside the contracts are explored exhaustively only up to the stated bound" % prop)
    if fails:
        e["violations"] = int(e.get("violations", 0)) + len(fails)
    e["wall_s"] = float(e.get("wall_s", 0)) + float(b.get("wall_s", 0.0))
    json.dump(e, open(ev, "w"), indent=1)
sys.exit(1 if fails else 0)
