#!/bin/bash
# tools/seed_setup.sh <seed-id> <prop-id>: scratch worktree /tmp/wt/<seed-id> of /repo HEAD without
# the contract files, and /tmp/seedout/<seed-id>/property.json with the property text only.
set -e
ID="$1"; PROP="$2"
mkdir -p /tmp/wt /tmp/seedout/$ID
git -C /repo worktree remove --force /tmp/wt/$ID 2>/dev/null || true
rm -rf /tmp/wt/$ID
git -C /repo worktree add -q --detach /tmp/wt/$ID HEAD
cd /tmp/wt/$ID
find . -name verif_contracts.go -delete
git -c user.name=scratch -c user.email=s@x commit -qam "scratch: sources only"
python3 - "$PROP" "$ID" <<'PY'
import json,sys
for l in open('/verif/properties.jsonl'):
    d=json.loads(l)
    if d['id']==sys.argv[1]:
        json.dump(d,open('/tmp/seedout/%s/property.json'%sys.argv[2],'w'),indent=1)
PY
echo "ready /tmp/wt/$ID"
