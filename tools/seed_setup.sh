#!/bin/bash
# tools/seed_setup.sh <seed-id> <prop-id>: scratch worktree /var/tmp/wt/<seed-id> of /repo HEAD without
# the contract files, and /var/tmp/seedout/<seed-id>/property.json with the property text only.
set -e
ID="$1"; PROP="$2"
mkdir -p /var/tmp/wt /var/tmp/seedout/$ID
git -C /repo worktree remove --force /var/tmp/wt/$ID 2>/dev/null || true
rm -rf /var/tmp/wt/$ID
git -C /repo worktree add -q --detach /var/tmp/wt/$ID HEAD
cd /var/tmp/wt/$ID
find . -name verif_contracts.go -delete
git -c user.name=scratch -c user.email=s@x commit -qam "scratch: sources only"
python3 - "$PROP" "$ID" <<'PY'
import json,sys
for l in open('/verif/properties.jsonl'):
    d=json.loads(l)
    if d['id']==sys.argv[1]:
        json.dump(d,open('/var/tmp/seedout/%s/property.json'%sys.argv[2],'w'),indent=1)
PY
echo "ready /var/tmp/wt/$ID"
