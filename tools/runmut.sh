#!/bin/bash
# tools/runmut.sh <prop> <patch> [expect]  — applies a patch to a scratch copy of /repo's
# working tree (outside /repo and /verif), runs the property check on it, removes the copy.
# expect: "violation" (default) or "pass".
set -u
PROP="$1"; PATCH="$(readlink -f "$2")"; EXPECT="${3:-violation}"
SCR="${VERIF_SCRATCH:-/var/tmp}/gowp-mut-$$"
rm -rf "$SCR"; mkdir -p "$SCR"
rsync -a --exclude .git /repo/ "$SCR/"
if ! (cd "$SCR" && patch -p1 -s --no-backup-if-mismatch < "$PATCH"); then echo "PATCH-FAILED $PATCH"; rm -rf "$SCR"; exit 2; fi
OUT=$(cd /verif && ./bin/gowp --prop "$PROP" --repo "$SCR" --no-evidence --workdir "$SCR.work" 2>&1); RC=$?
if /verif/tools/bounded.sh --has "$PROP" && [ $RC -ne 3 ]; then
  B="$SCR.bounded.json"
  if /verif/tools/bounded.sh "$PROP" "$SCR" quick "$B" >/dev/null 2>&1 || [ -s "$B" ]; then
    BOUT=$(python3 /verif/tools/merge_bounded.py "$PROP" "$B"); [ $? -eq 1 ] && RC=1
    OUT="$OUT
$BOUT"
  fi
  rm -f "$B"
fi
rm -rf "$SCR" "$SCR.work"
NV=$(echo "$OUT" | grep -c '^VIOLATION')
if [ "$EXPECT" = "violation" ]; then
  if [ $RC -eq 1 ] && [ $NV -gt 0 ]; then echo "CAUGHT $PROP $(basename $PATCH): $(echo "$OUT" | grep '^VIOLATION' | head -2 | sed 's/.*obligation=//' | tr '\n' ' ')"; exit 0; fi
  echo "MISSED $PROP $(basename $PATCH) rc=$RC"; echo "$OUT" | tail -3; exit 1
else
  if [ $RC -eq 0 ]; then echo "SILENT-OK $PROP $(basename $PATCH)"; exit 0; fi
  echo "FALSE-ALARM $PROP $(basename $PATCH) rc=$RC"; echo "$OUT" | grep '^VIOLATION' | head -3; exit 1
fi
