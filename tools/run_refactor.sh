#!/bin/bash
# tools/run_refactor.sh <R-id> <props...>: behaviour-preserving refactoring seeded/<id>/patch.diff must NOT alarm
ID="$1"; shift
SCR=/var/tmp/gowp-ref-$ID-$$; rm -rf $SCR; mkdir -p $SCR
rsync -a --exclude .git /repo/ $SCR/
if ! (cd $SCR && patch -p1 -s --no-backup-if-mismatch < /verif/seeded/$ID/patch.diff); then echo "$ID PATCH-FAILED"; rm -rf $SCR; exit 2; fi
for P in "$@"; do
  OUT=$(cd /verif && ./bin/gowp --prop $P --repo $SCR --no-evidence --workdir $SCR.work 2>&1); RC=$?
  if /verif/tools/bounded.sh --has "$P" && [ $RC -ne 3 ]; then
    B="$SCR.bounded.json"
    if /verif/tools/bounded.sh "$P" "$SCR" quick "$B" >/dev/null 2>&1 || [ -s "$B" ]; then
      BOUT=$(python3 /verif/tools/merge_bounded.py "$P" "$B"); [ $? -eq 1 ] && RC=1
      OUT="$OUT
$BOUT"
    fi
    rm -f "$B"
  fi
  echo "$ID $P rc=$RC $(echo "$OUT" | grep '^VIOLATION' | head -8 | sed 's/.*obligation=//' | cut -c1-150 | tr '\n' ';')"
done
rm -rf $SCR $SCR.work
