package main

import (
	"encoding/json"
	"flag"
	"fmt"
	"os"
	"path/filepath"
	"sort"
	"strings"
	"time"

	"golang.org/x/tools/go/packages"
	"golang.org/x/tools/go/ssa"
	"golang.org/x/tools/go/ssa/ssautil"
)

type PropFile struct {
	Props map[string]*PropSpec `json:"props"`
}

type PropSpec struct {
	Mode        string   `json:"mode"`
	Layers      []string `json:"layers"`
	Packages    []string `json:"packages"`
	Assumptions []string `json:"assumptions"`
	Trusted     []string `json:"trusted_base"`
	Bounded     []string `json:"bounded"`
}

type KnownFinding struct {
	Property   string `json:"property"`
	Obligation string `json:"obligation"`
	What       string `json:"what"`
	Status     string `json:"status"` // open | fixed
	Commit     string `json:"commit,omitempty"`
	Witness    string `json:"witness,omitempty"`
}

type KnownFile struct {
	Findings []KnownFinding `json:"findings"`
}

func main() {
	prop := flag.String("prop", "", "property id")
	tier := flag.String("tier", "quick", "quick|thorough")
	repo := flag.String("repo", "/repo", "repository root")
	verif := flag.String("verif", "/verif", "verif root")
	dump := flag.String("dump-ssa", "", "dump SSA of function (pkgpath.Key) and exit")
	only := flag.String("only", "", "only verify functions whose key contains this substring")
	updateBaseline := flag.Bool("update-baseline", false, "write the baseline obligation list")
	noEvidence := flag.Bool("no-evidence", false, "do not write evidence")
	verbose := flag.Bool("v", false, "verbose")
	workFlag := flag.String("workdir", "", "scratch directory for SMT files (default <verif>/work/<prop>)")
	replayFile := flag.String("replay", "", "re-run the replay recorded in this file against the real code")
	flag.Parse()
	if t := os.Getenv("VERIF_TIER"); t != "" {
		*tier = t
	}
	if *replayFile != "" {
		os.Exit(rerunReplay(*replayFile, *repo, *verif, *prop))
	}
	seed := 0
	fmt.Sscanf(os.Getenv("VERIF_SEED"), "%d", &seed)
	start := time.Now()

	db := NewContractDB()
	db.LoadAll(*repo, filepath.Join(*verif, "spec"))
	if len(db.Errors) > 0 {
		for _, e := range db.Errors {
			fmt.Fprintln(os.Stderr, "contract error:", e)
		}
		os.Exit(3)
	}
	var pf PropFile
	if b, err := os.ReadFile(filepath.Join(*verif, "props.json")); err == nil {
		if err := json.Unmarshal(b, &pf); err != nil {
			fmt.Fprintln(os.Stderr, "props.json:", err)
			os.Exit(3)
		}
	}
	ps := pf.Props[*prop]
	if ps == nil && *dump == "" {
		fmt.Fprintln(os.Stderr, "unknown property", *prop)
		os.Exit(3)
	}
	if ps == nil {
		ps = &PropSpec{Mode: "seq", Layers: []string{"safety"}}
	}
	cfg := &PropConfig{ID: *prop, Mode: ps.Mode, Layers: map[string]bool{}}
	for _, l := range ps.Layers {
		cfg.Layers[l] = true
	}

	// which contracts belong to this property
	var targets []*Contract
	pkgSet := map[string]bool{}
	for _, c := range db.Funcs {
		if c.Extern {
			continue
		}
		for _, p := range c.Props {
			if p == *prop {
				targets = append(targets, c)
				pkgSet[c.Pkg] = true
			}
		}
	}
	sort.Slice(targets, func(i, j int) bool { return targets[i].Key() < targets[j].Key() })
	for _, p := range ps.Packages {
		pkgSet[repoPrefix+"/"+p] = true
	}
	if *dump != "" {
		pk, _ := splitQualified(*dump)
		pkgSet[pk] = true
	}
	var patterns []string
	for p := range pkgSet {
		rel := strings.TrimPrefix(strings.TrimPrefix(p, repoPrefix), "/")
		if rel == "" {
			patterns = append(patterns, ".")
		} else {
			patterns = append(patterns, "./"+rel)
		}
	}
	sort.Strings(patterns)
	if len(patterns) == 0 {
		fmt.Fprintln(os.Stderr, "no functions under contract for", *prop)
		os.Exit(3)
	}
	env := append(os.Environ(), "GOFLAGS=-mod=mod", "GOPROXY=off", "GOSUMDB=off", "GOTOOLCHAIN=local")
	pcfg := &packages.Config{Mode: packages.LoadAllSyntax, Dir: *repo, Env: env}
	pkgs, err := packages.Load(pcfg, patterns...)
	if err != nil {
		fmt.Fprintln(os.Stderr, "load:", err)
		os.Exit(3)
	}
	nerr := 0
	packages.Visit(pkgs, nil, func(p *packages.Package) {
		for _, e := range p.Errors {
			if strings.HasPrefix(p.PkgPath, repoPrefix) {
				fmt.Fprintln(os.Stderr, "package error:", e)
				nerr++
			}
		}
	})
	if nerr > 0 {
		// the tree does not compile: nothing can be verified
		fmt.Fprintln(os.Stderr, "repository does not type-check; cannot generate obligations")
		os.Exit(3)
	}
	prog, _ := ssautil.AllPackages(pkgs, ssa.GlobalDebug|ssa.InstantiateGenerics)
	prog.Build()
	fnIndex := map[string]*ssa.Function{}
	for fn := range ssautil.AllFunctions(prog) {
		pk := pkgOf(fn)
		if !strings.HasPrefix(pk, repoPrefix) {
			continue
		}
		p, k := funcKey(fn)
		if fn.Synthetic != "" && !strings.Contains(fn.Synthetic, "closure") && fn.Synthetic != "package initializer" {
			continue
		}
		fnIndex[p+"."+k] = fn
	}
	if *dump != "" {
		fn := fnIndex[*dump]
		if fn == nil {
			fmt.Fprintln(os.Stderr, "no such function; known:")
			var ks []string
			for k := range fnIndex {
				if strings.Contains(k, filepath.Base(*dump)) || strings.HasPrefix(k, strings.SplitN(*dump, ".", 2)[0]) {
					ks = append(ks, k)
				}
			}
			sort.Strings(ks)
			for _, k := range ks {
				fmt.Fprintln(os.Stderr, "  ", k)
			}
			os.Exit(3)
		}
		fn.WriteTo(os.Stdout)
		for _, af := range fn.AnonFuncs {
			af.WriteTo(os.Stdout)
		}
		return
	}

	eng := &Engine{prog: prog, db: db, prop: *prop, cfg: cfg, obls: map[string]*Obligation{}, immutableHeap: map[string]bool{}, fnByShort: map[string]fnEntry{}, replayCache: map[string]*replayResult{}}
	if b, err := os.ReadFile(filepath.Join(*verif, "baseline", *prop+".locals.json")); err == nil {
		json.Unmarshal(b, &eng.baseLocals)
	}
	eng.checkImmutables(fnIndex)
	type fnReport struct {
		Func        string `json:"func"`
		Obligations int    `json:"obligations"`
		Abstracted  bool   `json:"abstracted,omitempty"`
		Error       string `json:"error,omitempty"`
	}
	var missing []string
	var fnErrors []string
	for _, c := range targets {
		if *only != "" && !strings.Contains(c.Key(), *only) {
			continue
		}
		fn := fnIndex[c.Key()]
		if fn == nil {
			missing = append(missing, c.Key())
			continue
		}
		if c.Trusted {
			continue
		}
		{
			pk, key := funcKey(fn)
			eng.fnByShort[shortPkg(pk)+"."+key] = fnEntry{fn, c}
		}
		if ps.Mode == "both" {
			eng.both = true
			eng.passConc = false
			cfg.Mode = "seq"
			if err := eng.VerifyFunction(fn, c); err != nil {
				fnErrors = append(fnErrors, err.Error())
			}
			eng.passConc = true
			cfg.Mode = "conc"
			if err := eng.VerifyFunction(fn, c); err != nil {
				fnErrors = append(fnErrors, "conc pass: "+err.Error())
			}
			continue
		}
		if err := eng.VerifyFunction(fn, c); err != nil {
			fnErrors = append(fnErrors, err.Error())
		}
	}
	var obls []*Obligation
	for _, n := range eng.order {
		obls = append(obls, eng.obls[n])
	}
	workDir := filepath.Join(*verif, "work", *prop+"."+*tier)
	if *workFlag != "" {
		workDir = *workFlag
	}
	os.RemoveAll(workDir)
	timeout := 20
	all := false
	if *tier == "thorough" {
		timeout = 90
		all = true
	}
	dischargeAll(obls, workDir, timeout, all, seed, 16)

	// ---------- verdicts ----------
	var known KnownFile
	if b, err := os.ReadFile(filepath.Join(*verif, "known_findings.json")); err == nil {
		json.Unmarshal(b, &known)
	}
	knownOpen := map[string]KnownFinding{}
	for _, k := range known.Findings {
		if k.Property == *prop && k.Status == "open" {
			knownOpen[k.Obligation] = k
		}
	}
	baseline := map[string]string{}
	basePath := filepath.Join(*verif, "baseline", *prop+".json")
	if b, err := os.ReadFile(basePath); err == nil {
		json.Unmarshal(b, &baseline)
	}
	violations := 0
	discharged, total := 0, 0
	bySolver := map[string]map[string]float64{}
	var solverMs int64
	var samples []map[string]interface{}
	type vrec struct{ name, reason string }
	var viols []vrec
	seenKnown := map[string]bool{}
	for _, ob := range obls {
		total++
		solverMs += ob.Ms
		switch ob.Status {
		case "discharged", "trivial", "sat-unknown":
			discharged++
			s := ob.Solver
			if ob.Status == "trivial" {
				s = "syntactic"
			}
			if bySolver[s] == nil {
				bySolver[s] = map[string]float64{}
			}
			bySolver[s]["count"]++
			bySolver[s]["ms"] += float64(ob.Ms)
		default:
			if kf, ok := knownOpen[ob.Name]; ok {
				fmt.Printf("KNOWN-FINDING: property=%s %s %s\n", *prop, ob.Name, kf.What)
				seenKnown[ob.Name] = true
				total-- // not counted as an obligation of the proof
				continue
			}
			viols = append(viols, vrec{ob.Name, ob.Status})
		}
		if len(samples) < 6 && len(ob.VCs) > 0 {
			samples = append(samples, map[string]interface{}{"obligation": ob.Name, "goal": ob.Desc, "pos": ob.Pos, "status": ob.Status, "solver": ob.Solver, "ms": ob.Ms, "paths": len(ob.VCs)})
		}
	}
	// fail closed: missing targets, engine errors, vanished baseline obligations
	for _, m := range missing {
		viols = append(viols, vrec{fmt.Sprintf("%s/%s/contract-target-missing", *prop, m), "contract-target-missing"})
	}
	for _, e := range fnErrors {
		viols = append(viols, vrec{fmt.Sprintf("%s/engine", *prop), "left-subset: " + e})
	}
	if !*updateBaseline && *only == "" {
		var names []string
		for n := range baseline {
			names = append(names, n)
		}
		sort.Strings(names)
		// Fail closed on vanished *contract* obligations (clause-level: the site sub-ordinal is
		// ignored, so adding or removing a call does not alarm); safety-site obligations
		// (index, nil, overflow, ...) legitimately come and go with harmless edits.
		have := map[string]bool{}
		for n := range eng.obls {
			have[clauseKey(n)] = true
		}
		reported := map[string]bool{}
		for _, n := range names {
			ck := clauseKey(n)
			if ck == "" || have[ck] || reported[ck] || baseline[n] == "known" {
				continue
			}
			if _, isKnown := knownOpen[n]; isKnown {
				continue
			}
			reported[ck] = true
			viols = append(viols, vrec{ck, "obligation-vanished (was " + baseline[n] + " on the pinned tree)"})
		}
	}
	replayDir := filepath.Join(*verif, "replays", *prop)
	for _, v := range viols {
		violations++
		ob := eng.obls[v.name]
		rp := filepath.Join(replayDir, sanitizeFile(v.name)+".json")
		os.MkdirAll(replayDir, 0o755)
		suffix := ""
		rec := map[string]interface{}{"property": *prop, "obligation": v.name, "reason": v.reason}
		reproduced := false
		if ob != nil {
			rec["goal"] = ob.Desc
			rec["pos"] = ob.Pos
			rec["status"] = ob.Status
			rec["solver"] = ob.Solver
			rec["smt_file"] = ob.SMTFile
			rec["solver_output"] = truncate(ob.Model, 6000)
			if ob.Status == "refuted" || ob.Status == "unknown" {
				reproduced = tryReplay(eng, ob, rec, *repo, *verif)
			}
		}
		if !reproduced {
			suffix = " no-failing-input-found"
		}
		b, _ := json.MarshalIndent(rec, "", " ")
		os.WriteFile(rp, b, 0o644)
		fmt.Printf("VIOLATION property=%s replay=%s obligation=%s reason=%s%s\n", *prop, rp, v.name, strings.ReplaceAll(v.reason, " ", "_"), suffix)
	}
	// known findings whose obligation now discharges are reported (not an error)
	for n := range knownOpen {
		if !seenKnown[n] {
			if ob, ok := eng.obls[n]; ok && (ob.Status == "discharged" || ob.Status == "trivial") {
				fmt.Printf("NOTE: known finding %s no longer reproduces (obligation discharged)\n", n)
			}
		}
	}
	if *updateBaseline {
		bl := map[string]string{}
		for _, ob := range obls {
			st := ob.Status
			if _, ok := knownOpen[ob.Name]; ok {
				st = "known"
			}
			bl[ob.Name] = st
		}
		os.MkdirAll(filepath.Dir(basePath), 0o755)
		b, _ := json.MarshalIndent(bl, "", " ")
		os.WriteFile(basePath, b, 0o644)
		lb, _ := json.MarshalIndent(eng.curLocals, "", " ")
		os.WriteFile(filepath.Join(*verif, "baseline", *prop+".locals.json"), lb, 0o644)
	}
	if *verbose || violations > 0 {
		for _, ob := range obls {
			if *verbose || (ob.Status != "discharged" && ob.Status != "trivial") {
				fmt.Fprintf(os.Stderr, "%-12s %-8s %5dms max %5dms %s  [%s] %s\n", ob.Status, ob.Solver, ob.Ms, ob.MaxMs, ob.Name, ob.Pos, ob.Desc)
			}
		}
		for _, l := range eng.abslog {
			if *verbose {
				fmt.Fprintln(os.Stderr, "abstraction:", l)
			}
		}
	}
	// ---------- evidence ----------
	if !*noEvidence && *only == "" {
		var fns []fnReport
		counts := map[string]int{}
		abst := map[string]bool{}
		for _, ob := range obls {
			counts[ob.Func]++
			if ob.Abstracted {
				abst[ob.Func] = true
			}
		}
		for _, f := range eng.funcsDone {
			fns = append(fns, fnReport{Func: f, Obligations: counts[f], Abstracted: abst[f]})
		}
		sort.Slice(obls, func(i, j int) bool { return obls[i].Ms > obls[j].Ms })
		var slow []map[string]interface{}
		for i := 0; i < len(obls) && i < 5; i++ {
			slow = append(slow, map[string]interface{}{"obligation": obls[i].Name, "ms": obls[i].Ms, "solver": obls[i].Solver})
		}
		var lib []string
		for k := range libUsed {
			lib = append(lib, "assumed library model: "+k)
		}
		sort.Strings(lib)
		var usedContracts []string
		for k, c := range db.Funcs {
			if c.Used && (c.Extern || c.Trusted) {
				usedContracts = append(usedContracts, "assumed contract (extern/trusted): "+k)
			}
		}
		for k, c := range db.Ifaces {
			if c.Used {
				usedContracts = append(usedContracts, "assumed interface contract: "+k)
			}
		}
		sort.Strings(usedContracts)
		trusted := append([]string{}, ps.Trusted...)
		trusted = append(trusted, "go/packages+go/ssa (x/tools v0.29.0) front end", "gowp VC generator encoding (A-ENC)", "z3 4.8.12 / z3 5.1.0 / cvc5 1.0.3 unsat answers")
		trusted = append(trusted, lib...)
		trusted = append(trusted, usedContracts...)
		assumptions := append([]string{}, ps.Assumptions...)
		assumptions = append(assumptions, "integers are mathematical; overflow of + - * is a separate obligation where the overflow layer is on; lengths bounded by 2^48 (A-MEM)")
		// what the contracts themselves leave unchecked: skipped obligation kinds, and the
		// preconditions of the functions under contract (checked at every call site inside the
		// verified set, assumed for callers outside it)
		doneSet := map[string]bool{}
		for _, f := range eng.funcsDone {
			doneSet[f] = true
		}
		var skips, pres []string
		preSeen := map[string]bool{}
		for _, c := range db.Funcs {
			short := shortPkg(c.Pkg) + "." + c.Func
			if !doneSet[short] {
				continue
			}
			if len(c.SkipKinds) > 0 {
				var ks []string
				for k := range c.SkipKinds {
					ks = append(ks, k)
				}
				sort.Strings(ks)
				skips = append(skips, short+": "+strings.Join(ks, " "))
			}
			for _, cl := range c.ClausesOf("requires") {
				if cl.appliesTo(*prop) && !preSeen[cl.Text] {
					preSeen[cl.Text] = true
					pres = append(pres, cl.Text)
				}
			}
		}
		sort.Strings(skips)
		sort.Strings(pres)
		for _, sk := range skips {
			assumptions = append(assumptions, "obligation kinds not generated by contract (skip): "+sk)
		}
		if len(pres) > 0 {
			shown := pres
			if len(shown) > 12 {
				shown = shown[:12]
			}
			assumptions = append(assumptions, fmt.Sprintf("entry preconditions of the functions under contract (%d distinct; proved at every call site inside the verified set and, where a constructor is under contract, established by it; assumed for other callers): %s", len(pres), strings.Join(shown, " | ")))
		}
		var kfl []string
		for n, k := range knownOpen {
			kfl = append(kfl, n+": "+k.What)
			assumptions = append(assumptions, "known finding excluded from the proof: "+n)
		}
		sort.Strings(kfl)
		var vac []string
		for _, ob := range obls {
			if ob.Kind == "vacuity" {
				vac = append(vac, ob.Name+"="+ob.Status)
			}
		}
		sort.Strings(vac)
		ev := map[string]interface{}{
			"property_id": *prop,
			"tier":        *tier,
			"seed":        seed,
			"level":       "proof",
			"coverage": map[string]interface{}{
				"obligations":     total,
				"discharged":      discharged,
				"checker_cmd":     fmt.Sprintf("/verif/bin/gowp --prop %s --tier %s  (VCs from go/ssa of %s; solvers: z3-new 5.1.0, z3 4.8.12, cvc5 1.0.3, first definitive answer; timeout %ds)", *prop, *tier, *repo, timeout),
				"trusted_base":    trusted,
				"samples":         samples,
				"functions":       fns,
				"by_solver":       bySolver,
				"solver_time_s":   float64(solverMs) / 1000.0,
				"slowest":         slow,
				"bounded":         ps.Bounded,
				"abstraction_log": eng.abslog,
				"known_findings":  kfl,
				"vacuity":         vac,
				"mode":            cfg.Mode,
				"layers":          ps.Layers,
				"contract_files":  relFiles(db.Files),
			},
			"assumptions": assumptions,
			"wall_s":      time.Since(start).Seconds(),
			"violations":  violations,
		}
		os.MkdirAll(filepath.Join(*verif, "evidence"), 0o755)
		b, _ := json.MarshalIndent(ev, "", " ")
		os.WriteFile(filepath.Join(*verif, "evidence", *prop+".json"), b, 0o644)
	}
	fmt.Printf("%s: %d obligations, %d discharged, %d violations, %d functions, %.1fs\n", *prop, total, discharged, violations, len(eng.funcsDone), time.Since(start).Seconds())
	if total == 0 {
		fmt.Printf("VIOLATION property=%s replay=%s reason=no-obligations-generated no-failing-input-found\n", *prop, filepath.Join(replayDir, "vacuity.json"))
		os.Exit(1)
	}
	if violations > 0 {
		os.Exit(1)
	}
}

func relFiles(fs []string) []string {
	var out []string
	for _, f := range fs {
		out = append(out, f)
	}
	sort.Strings(out)
	return out
}

func truncate(s string, n int) string {
	if len(s) > n {
		return s[:n] + "..."
	}
	return s
}

// clauseKey maps an obligation name to its contract clause ("" for safety-site kinds).
func clauseKey(name string) string {
	i := strings.LastIndex(name, "/")
	if i < 0 {
		return ""
	}
	tail := name[i+1:]
	kind := tail
	if j := strings.Index(tail, "#"); j >= 0 {
		kind = tail[:j]
	}
	switch kind {
	case "index", "slice", "nil", "overflow", "div", "makeslice", "typeassert", "nilmap", "call", "panic", "convert", "vacuity", "frame", "lock", "unlock", "lockleak", "guard":
		return ""
	case "pre":
		// pre#<instruction ordinal>.<Callee>.<clause>: the instruction ordinal moves with any
		// edit; the clause is identified by the callee and the clause number
		if j := strings.Index(tail, "."); j >= 0 {
			rest := tail[j+1:]
			if strings.Contains(rest, ".holds") {
				return ""
			}
			// (not tied to the enclosing function either: the call may move into a helper)
			prop := name
			if k := strings.Index(name, "/"); k >= 0 {
				prop = name[:k]
			}
			return prop + "/pre@" + rest
		}
		return ""
	case "at_call", "at_store", "only_calls", "monitor":
		// strip the site sub-ordinal: kind#clause.site...
		if j := strings.Index(tail, "."); j >= 0 {
			return name[:i+1] + tail[:j]
		}
	}
	return name
}
