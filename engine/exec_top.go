package main

import (
	"fmt"
	"go/ast"
	"go/constant"
	"go/token"
	"go/types"
	"os"
	"sort"
	"strconv"
	"strings"

	"golang.org/x/tools/go/ssa"
)

// VerifyFunction generates all obligations of one function under contract.
func (e *Engine) VerifyFunction(fn *ssa.Function, con *Contract) (err error) {
	x := e.newFnCtx(fn, con)
	defer func() {
		if r := recover(); r != nil {
			if ee, ok := r.(engineError); ok {
				err = fmt.Errorf("%s", ee.msg)
				return
			}
			panic(r)
		}
	}()
	if len(fn.Blocks) == 0 {
		return fmt.Errorf("%s: no body", x.short)
	}
	x.unroll = e.unroll
	if x.unroll > 0 {
		x.maxPaths = 30000
	}
	// pass 1: collect the heap write set (for loop-head havoc) without emitting obligations
	if len(x.hdrList) > 0 && x.unroll == 0 {
		x.collecting = true
		x.explore()
		x.collecting = false
		x.paths = 0
	}
	x.explore()
	// loop annotations that match no loop: fail closed
	for _, cl := range con.Clauses {
		if (cl.Kind == "invariant" || cl.Kind == "decreases" || cl.Kind == "step" || cl.Kind == "exit" || cl.Kind == "trace_step") && cl.Loop > len(x.hdrList) {
			return fmt.Errorf("%s: contract names loop %d but the function has %d loops (contract-target-missing)", x.short, cl.Loop, len(x.hdrList))
		}
	}
	// call-site clauses whose pattern matched no call (or send) of the function are legitimate as
	// prohibitions (`requires false`) and in generated clause lists, so they are not an error; they
	// are listed in the abstraction log so that a misspelt pattern is visible to the author. (A
	// clause that matched on the pinned tree and stops matching is an `obligation-vanished`
	// violation through the baseline.)
	if e.cfg.Layers["contract"] && x.unroll == 0 {
		for _, cl := range con.ClausesOf("at_call") {
			if cl.appliesTo(e.prop) && !x.atCallHit[cl] && strings.TrimSpace(cl.Text) != "false" {
				e.logAbs("%s: at_call %s matches no call site (%s)", x.short, cl.Arg, cl.Text)
			}
		}
	}
	if !e.passConc {
		e.funcsDone = append(e.funcsDone, x.short)
	}
	return nil
}

func (x *fnCtx) newTopState() (*State, *Frame) {
	st := &State{heap: &Heap{m: map[string]*Term{}}, ghost: map[string]*Val{}, fresh: map[*Term]bool{}}
	fr := &Frame{fn: x.fn, regs: map[ssa.Value]*Val{}, names: map[string]nameBind{}, isTop: true}
	st.frames = []*Frame{fr}
	// parameters
	for _, p := range x.fn.Params {
		v := freshVal(p.Type(), "p."+p.Name(), true)
		fr.regs[p] = v
		fr.params = append(fr.params, v)
		fr.names[p.Name()] = nameBind{v: v}
		for _, f := range rangeFacts(v) {
			st.assume(f)
		}
		x.assumeValAllocated(st, v)
	}
	// free variables of closures: pointers to captured variables
	for _, fv := range x.fn.FreeVars {
		v := freshVal(fv.Type(), "fv."+fv.Name(), true)
		fr.regs[fv] = v
		fr.names[fv.Name()] = nameBind{v: v, isAddr: isPointer(fv.Type())}
		st.assume(Ne(v.L[0], IntLit(0)))
		x.assumeValAllocated(st, v)
		// the captured variable's cell (and, for a captured struct, its fields) is touched only
		// by this closure and callees that receive its address (A-CAPTURE)
		if pt, ok := fv.Type().Underlying().(*types.Pointer); ok {
			el := pt.Elem()
			var names []string
			if _, ok := transparentStruct(el); ok {
				base, _ := heapKeyStruct(el, nil)
				for _, l := range layout(el) {
					names = append(names, base+l.Suffix)
				}
			} else {
				for _, l := range layout(el) {
					names = append(names, cellHeapName(el)+l.Suffix)
				}
			}
			for i, l := range layout(el) {
				heapSorts[names[i]] = ArrSort(SInt, l.Sort)
			}
			st.stackObjs = append(st.stackObjs, stackObj{ref: v.L[0], names: names})
		}
	}
	// receivers are assumed non-nil (methods are called on live objects)
	if x.fn.Signature.Recv() != nil && len(x.fn.Params) > 0 {
		r := fr.regs[x.fn.Params[0]]
		if isPointer(r.T) {
			st.assume(Ne(r.L[0], IntLit(0)))
		}
	}
	st.assume(Not(Select(x.heapArr(st, "$alloc", ArrSort(SInt, SBool)), IntLit(0))))
	fr.oldHeap = st.heap.snapshot()
	x.lastParams = fr.params
	return st, fr
}

func (x *fnCtx) assumeRequires(st *State, fr *Frame) {
	// references that the preconditions read from the entry heap are nil or allocated at entry
	// (heap closure, as for the loads of the program itself)
	env := &specEnv{x: x, st: st, heap: st.heap, old: fr.oldHeap, names: x.paramNames(fr), fr: fr, closed: true}
	if !x.eng.axiomsDone {
		x.eng.axiomsDone = true
		for _, ax := range x.eng.db.Axioms {
			t := x.evalSpecBool(&specEnv{x: x, st: st, heap: st.heap, old: st.heap, names: map[string]nameBind{}, fr: fr}, ax.Expr)
			ga := &GlobalAxiom{Name: ax.Name, T: t, Funs: map[string]bool{}}
			termFuns(t, ga.Funs, map[*Term]bool{})
			GlobalAxioms = append(GlobalAxioms, ga)
		}
	}
	for _, cl := range x.con.ClausesOf("requires") {
		st.assume(x.evalSpecBool(env, cl.Expr))
	}
	x.assumeHeldAtEntry(st, fr, env)
}

func (x *fnCtx) paramNames(fr *Frame) map[string]nameBind {
	names := map[string]nameBind{}
	for i, p := range x.fn.Params {
		names[p.Name()] = nameBind{v: fr.params[i]}
		names[fmt.Sprintf("$%d", i)] = nameBind{v: fr.params[i]}
	}
	for _, fv := range x.fn.FreeVars {
		names[fv.Name()] = nameBind{v: fr.regs[fv], isAddr: isPointer(fv.Type())}
	}
	return names
}

func (x *fnCtx) explore() {
	// from entry
	x.curHeader = nil
	st, fr := x.newTopState()
	st.from = "entry"
	x.assumeRequires(st, fr)
	fr.oldHeap = st.heap.snapshot()
	if !x.collecting {
		x.vacuityCheck(st, "requires")
		// `captures readonly`: decided on the SSA form - every use of a captured variable's cell
		// in this closure is a load (callbacks that run on several goroutines at once must not
		// share state through the variables of the function that created them)
		if x.con.CapturesRO {
			for _, fv := range x.fn.FreeVars {
				goal := True
				if !closureOnlyReads(x.fn, fv) {
					goal = False
				}
				x.addVC(st, x.short, "capture", 0, fv.Name(), goal, "captures readonly: the closure only loads the captured variable "+fv.Name(), x.eng.posStr(x.fn.Pos()))
			}
		}
		// lemmas: pure implications discharged on their own in the entry state
		for _, cl := range x.con.ClausesOf("lemma") {
			if !cl.appliesTo(x.eng.prop) {
				continue
			}
			env := &specEnv{x: x, st: st, heap: st.heap, old: fr.oldHeap, names: x.paramNames(fr), fr: fr}
			x.addVC(st, x.short, "lemma", cl.Ord, "", x.evalSpecBool(env, cl.Expr), "lemma "+cl.Text, cl.Line)
		}
	}
	x.runBlock(st, x.fn.Blocks[0], nil, true)
	if x.unroll > 0 {
		return
	}
	// from each loop header
	for i, h := range x.hdrList {
		st, fr := x.newTopState()
		st.from = fmt.Sprintf("loop %d", i+1)
		x.curHeader = h
		x.assumeRequires(st, fr)
		fr.oldHeap = st.heap.snapshot()
		x.startAtHeader(st, fr, h, i+1)
	}
	x.undecidedTraceClauses()
}

// undecidedTraceClauses: a ^-anchored trace_ensures clause is decided on entry paths only; if
// every return of the function lies behind a loop, the clause would generate nothing and pass
// vacuously. Such a clause is reported as an obligation that cannot be discharged (the author
// states the prefix with `loop N trace_entry` and the rest with unanchored patterns instead).
func (x *fnCtx) undecidedTraceClauses() {
	if !x.collecting && x.con != nil && !x.eng.cfg.Layers["trace"] {
		// said out loud in the abstraction log of the evidence: this property's configuration
		// leaves the trace layer off, so trace clauses of this function are not decided for it
		n := 0
		for _, cl := range x.con.Clauses {
			switch cl.Kind {
			case "trace_ensures", "trace_panics", "trace_step", "trace_entry":
				if cl.appliesTo(x.eng.prop) {
					n++
				}
			}
		}
		if n > 0 {
			x.eng.logAbs("%s: %d trace clause(s) are not decided for %s (props.json: trace layer off)", x.short, n, x.eng.prop)
		}
	}
	if x.collecting || x.con == nil || !x.eng.cfg.Layers["trace"] || (x.con.OnlyLayers != nil && !x.con.OnlyLayers["trace"]) {
		return
	}
	for _, kind := range []string{"trace_ensures", "trace_panics"} {
		for _, cl := range x.con.ClausesOf(kind) {
			if !cl.appliesTo(x.eng.prop) || !strings.HasPrefix(strings.TrimPrefix(cl.Arg, "!"), "^") {
				continue
			}
			name := fmt.Sprintf("%s/%s/%s#%d", x.eng.prop, x.short, kind, cl.Ord)
			if _, ok := x.eng.obls[name]; ok || kind == "trace_panics" {
				continue
			}
			if !x.reachedReturn {
				continue
			}
			x.eng.logAbs("%s: %s#%d is ^-anchored but no path from the entry reaches a return without crossing a loop header: the clause is undecided", x.short, kind, cl.Ord)
			ob := &Obligation{Name: name + ".undecided", Func: x.short, Kind: kind, Ord: cl.Ord, Desc: "clause is never decided: every return lies behind a loop header (" + cl.Text + " : " + cl.Arg + ")", Pos: cl.Line}
			ob.VCs = []*VC{{Goal: False, From: "entry", Note: ob.Desc}}
			x.eng.obls[ob.Name] = ob
			x.eng.order = append(x.eng.order, ob.Name)
		}
	}
}

// vacuityCheck records a satisfiability obligation: the assumptions must be consistent.
func (x *fnCtx) vacuityCheck(st *State, what string) {
	e := x.eng
	if e.passConc {
		what = "conc." + what
	}
	name := fmt.Sprintf("%s/%s/vacuity#%s", e.prop, x.short, what)
	if _, ok := e.obls[name]; ok {
		return
	}
	ob := &Obligation{Name: name, Func: x.short, Kind: "vacuity", Desc: "assumptions (" + what + ") are satisfiable"}
	ob.VCs = []*VC{{Assumps: append([]*Term(nil), st.pc...), Goal: nil, From: st.from}}
	e.obls[name] = ob
	e.order = append(e.order, name)
}

// dominating blocks in dominator-tree order from entry to b (exclusive).
func domChain(b *ssa.BasicBlock) []*ssa.BasicBlock {
	var chain []*ssa.BasicBlock
	for d := b.Idom(); d != nil; d = d.Idom() {
		chain = append([]*ssa.BasicBlock{d}, chain...)
	}
	return chain
}

func (x *fnCtx) startAtHeader(st *State, fr *Frame, h *ssa.BasicBlock, ord int) {
	x.evalHeader = h
	defer func() { x.evalHeader = nil }()
	// heap: everything written anywhere in the function is unknown at the header
	if x.writes["*"] {
		epochCounter++
		alloc := st.heap.m["$alloc"]
		oldh := st.heap
		st.heap = &Heap{m: map[string]*Term{}, epoch: epochCounter}
		if alloc != nil {
			st.heap.m["$alloc"] = alloc
		}
		// objects may have been allocated before the header is reached (earlier code, earlier
		// iterations): the allocation set at the header is an unknown superset of the entry's
		x.growAlloc(st, x.con.Allocates, true)
		epochAlloc[epochCounter] = st.heap.m["$alloc"]
		// immutable / stable fields that this function does not write keep their entry value
		_ = oldh // immutable / stable components resolve to their entry symbol in Heap.get;
		// those written by this function are unknown at the header
		for name := range stableHeapNames {
			if len(x.writePos[name]) > 0 {
				if srt, ok := heapSorts[name]; ok {
					st.heap.m[name] = Sym(fmt.Sprintf("H.%s@L%d", name, ord), srt)
				}
			}
		}
	} else {
		names := make([]string, 0, len(x.writes))
		for n := range x.writes {
			names = append(names, n)
		}
		sort.Strings(names)
		for _, n := range names {
			if n == "$alloc" {
				// allocation set grows: keep a fresh superset
				x.growAlloc(st, x.con.Allocates, true)
				continue
			}
			if srt, ok := heapSorts[n]; ok {
				st.heap.m[n] = Sym(fmt.Sprintf("H.%s@L%d", n, ord), srt)
			} else {
				if st.heap.poison == nil {
					st.heap.poison = map[string]bool{}
				}
				st.heap.poison[n] = true
			}
		}
	}
	// implicit frame invariant: components outside the modifies clause are unchanged for
	// objects that existed at entry (checked at every arrival, see arriveAtHeader)
	if x.framed() {
		for n, cur := range st.heap.m {
			if (strings.HasPrefix(n, "$") && n != "$maplen") || x.coveredByModifies(n) {
				continue
			}
			idxS, _ := cur.Sort.ArrParts()
			if idxS != SInt {
				continue
			}
			old := fr.oldHeap.get(n, cur.Sort)
			if old == cur {
				continue
			}
			bk := BVar("r", SInt)
			alloc0 := fr.oldHeap.get("$alloc", ArrSort(SInt, SBool))
			st.assume(Forall([]*Term{bk}, Implies(Select(alloc0, bk), Eq(Select(cur, bk), Select(old, bk))), Select(cur, bk)))
		}
	}
	// names: bindings established in dominating blocks, then header phis
	type bindSrc struct {
		blk *ssa.BasicBlock
		val ssa.Value
	}
	srcs := map[string]bindSrc{}
	for _, p := range x.fn.Params {
		srcs[p.Name()] = bindSrc{nil, p}
	}
	for _, d := range domChain(h) {
		for _, in := range d.Instrs {
			switch v := in.(type) {
			case *ssa.Alloc:
				if v.Comment != "" && v.Comment != "complit" && v.Comment != "varargs" && v.Comment != "makeslice" {
					fr.names[v.Comment] = nameBind{v: x.getVal(st, fr, v), isAddr: true}
					delete(srcs, v.Comment)
				}
			case *ssa.DebugRef:
				if obj := v.Object(); obj != nil {
					if tv, isVar := obj.(*types.Var); isVar && !tv.IsField() {
						if old, ok := fr.names[obj.Name()]; ok && old.isAddr && !v.IsAddr {
							if al, isAlloc := allocOf(fr, old.v); isAlloc && al.Comment == obj.Name() {
								continue
							}
						}
						fr.names[obj.Name()] = nameBind{v: x.getVal(st, fr, v.X), isAddr: v.IsAddr}
						if v.IsAddr {
							delete(srcs, obj.Name())
						} else {
							srcs[obj.Name()] = bindSrc{d, v.X}
						}
					}
				}
			case *ssa.Phi:
				if v.Comment != "" {
					fr.names[v.Comment] = nameBind{v: x.getVal(st, fr, v)}
					srcs[v.Comment] = bindSrc{d, v}
				}
			}
		}
	}
	// A binding taken from a dominating block is the variable's value at the header only if no
	// other assignment can reach the header. A variable that is assigned on the way (in the loop
	// itself, or in a branch before it) normally has a phi that rebinds the name; when the
	// variable is dead there the phi does not exist, and the name would silently denote a stale
	// value. Such a name is unknown at the header.
	hdrPhi := map[string]bool{}
	for _, in := range h.Instrs {
		if phi, ok := in.(*ssa.Phi); ok {
			if phi.Comment != "" {
				hdrPhi[phi.Comment] = true
			}
			continue
		}
		break
	}
	for name, src := range srcs {
		if hdrPhi[name] {
			continue
		}
		if x.staleBinding(name, src.blk, src.val, h) {
			if nb, ok := fr.names[name]; ok && nb.v != nil {
				nv := freshVal(nb.v.T, fmt.Sprintf("%s.L%d.stale.%s", x.short, ord, name), true)
				for _, f := range rangeFacts(nv) {
					st.assume(f)
				}
				fr.names[name] = nameBind{v: nv}
				x.eng.logAbs("%s: name %s is assigned on the way to loop %d without a live phi: unknown at the header", x.short, name, ord)
			}
		}
	}
	// branch conditions on the way to the header: a conditional jump in a dominating block one
	// of whose successors (entered only from that block) dominates the header was taken that way
	for _, d := range domChain(h) {
		if len(d.Instrs) == 0 {
			continue
		}
		ifi, ok := d.Instrs[len(d.Instrs)-1].(*ssa.If)
		if !ok || len(d.Succs) != 2 {
			continue
		}
		for k, sblk := range d.Succs {
			other := d.Succs[1-k]
			if len(sblk.Preds) != 1 || sblk == other {
				continue
			}
			if sblk == h || sblk.Dominates(h) {
				func() {
					defer func() {
						if r := recover(); r != nil {
							if _, isEng := r.(engineError); isEng {
								return
							}
							panic(r)
						}
					}()
					cv := x.getVal(st, fr, ifi.Cond)
					if cv != nil && len(cv.L) == 1 && cv.L[0].Sort == SBool {
						if k == 0 {
							st.assume(cv.L[0])
						} else {
							st.assume(Not(cv.L[0]))
						}
					}
				}()
			}
		}
	}
	for _, in := range h.Instrs {
		phi, ok := in.(*ssa.Phi)
		if !ok {
			break
		}
		v := freshVal(phi.Type(), fmt.Sprintf("%s.L%d.%s", x.short, ord, phiName(phi)), true)
		fr.regs[phi] = v
		for _, f := range rangeFacts(v) {
			st.assume(f)
		}
		x.assumeValAllocated(st, v)
		if phi.Comment != "" {
			fr.names[phi.Comment] = nameBind{v: v}
		}
	}
	// $i for an index loop `for i := c; ...; i++`: the index of the last completed iteration
	// (i - 1), so that the same invariant text fits the `for i := range xs` form of the loop
	if ip := inductionPhi(h); ip != nil {
		if v, ok := fr.regs[ip]; ok && len(v.L) == 1 {
			fr.names["rangeindex"] = nameBind{v: &Val{T: ip.Type(), L: []*Term{Sub(v.L[0], IntLit(1))}}}
		}
	}
	// ghost bindings made once outside all loops are visible under their stable symbol
	for _, td := range x.con.Traces {
		if td.As != "" && x.bindOutsideLoops(td) {
			if t := x.bindType(td); t != nil {
				st.ghost[td.As] = freshVal(t, "ghost."+x.short+"."+td.As, true)
			}
		}
	}
	// every other binding may have fired any number of times before this header is reached
	// (earlier code, earlier iterations): its value here is unknown, not "unbound"; what is
	// known about it must be stated as a loop invariant
	for _, td := range x.con.Traces {
		if td.As == "" || x.bindOutsideLoops(td) {
			continue
		}
		if _, done := st.ghost[td.As]; done {
			continue
		}
		if t := x.bindType(td); t != nil {
			v := freshVal(t, fmt.Sprintf("ghost.%s.%s@L%d", x.short, td.As, ord), true)
			for _, f := range rangeFacts(v) {
				st.assume(f)
			}
			st.ghost[td.As] = v
			st.ghost["$bound."+td.As] = scalar(tBool, Sym(fmt.Sprintf("ghost.%s.%s@L%d#bound", x.short, td.As, ord), SBool))
		}
	}
	// heap-independent conjuncts of the invariants of the enclosing loops still hold: they
	// speak about values of the current outer iteration, which are immutable
	for oi, ho := range x.hdrList {
		if ho == h || !x.loopBlocks(ho)[h] {
			continue
		}
		names2 := map[string]nameBind{}
		for k, v := range fr.names {
			names2[k] = v
		}
		func() {
			defer func() {
				if r := recover(); r != nil {
					if _, isEng := r.(engineError); isEng {
						return
					}
					panic(r)
				}
			}()
			for _, in := range ho.Instrs {
				phi, ok := in.(*ssa.Phi)
				if !ok {
					break
				}
				if phi.Comment != "" {
					names2[phi.Comment] = nameBind{v: x.getVal(st, fr, phi)}
				}
			}
			epochCounter++
			pure := &Heap{m: map[string]*Term{}, epoch: epochCounter}
			env2 := &specEnv{x: x, st: st, heap: pure, old: pure, names: names2, fr: fr}
			for _, cl := range x.con.Clauses {
				if cl.Kind != "invariant" || cl.Loop != oi+1 || !cl.appliesTo(x.eng.prop) {
					continue
				}
				t, ok := x.tryEval(env2, cl.Expr)
				if !ok {
					continue
				}
				one := 1 << 20
				for _, part := range splitGoal(t, &one) {
					if !mentionsHeapSym(part) {
						st.assume(part)
					}
				}
			}
		}()
	}
	// locks held at the header are described by invariants `held(...)`; assume invariants
	env := &specEnv{x: x, st: st, heap: st.heap, old: fr.oldHeap, names: fr.names, fr: fr}
	for _, cl := range x.con.Clauses {
		if cl.Kind == "invariant" && cl.Loop == ord {
			if t, ok := x.tryEval(env, cl.Expr); ok {
				st.assume(t)
			} else {
				x.addVC(st, x.short, "inv_init", ord, fmt.Sprintf("%d", cl.Ord), False, fmt.Sprintf("loop %d invariant cannot be evaluated (contract-target-missing): %s", ord, cl.Text), cl.Line)
			}
		}
	}
	// remember the variant value at the start of the iteration
	for _, cl := range x.con.Clauses {
		if cl.Kind == "decreases" && cl.Loop == ord {
			func() {
				defer func() {
					if r := recover(); r != nil {
						if ee, ok := r.(engineError); ok && strings.Contains(ee.msg, "spec:") {
							return
						}
						panic(r)
					}
				}()
				st.ghost[fmt.Sprintf("$variant%d", ord)] = x.evalSpec(env, cl.Expr)
			}()
		}
	}
	// snapshot for prev(...) in step clauses
	st.prevHeap = st.heap.snapshot()
	st.prevNames = map[string]nameBind{}
	for k, v := range fr.names {
		st.prevNames[k] = v
	}
	if !x.collecting {
		x.vacuityCheck(st, fmt.Sprintf("loop%d", ord))
	}
	x.runBlock(st, h, nil, true)
}

func phiName(p *ssa.Phi) string {
	if p.Comment != "" {
		return p.Comment
	}
	return p.Name()
}

func (x *fnCtx) arriveAtHeader(st *State, fr *Frame, h, pred *ssa.BasicBlock, ord int) {
	if !st.exitChecked && x.hasExit && x.unroll == 0 && !x.collecting {
		x.checkLoopExit(st, fr, h, nil)
	}
	x.evalHeader = h
	defer func() { x.evalHeader = nil }()
	// bind phi values for this edge
	idx := -1
	for i, p := range h.Preds {
		if p == pred {
			idx = i
		}
	}
	names := map[string]nameBind{}
	for k, v := range fr.names {
		names[k] = v
	}
	for _, in := range h.Instrs {
		phi, ok := in.(*ssa.Phi)
		if !ok {
			break
		}
		v := x.getVal(st, fr, phi.Edges[idx])
		if phi.Comment != "" {
			names[phi.Comment] = nameBind{v: retype(v, phi.Type())}
		}
	}
	if ip := inductionPhi(h); ip != nil {
		v := x.getVal(st, fr, ip.Edges[idx])
		if len(v.L) == 1 {
			names["rangeindex"] = nameBind{v: &Val{T: ip.Type(), L: []*Term{Sub(v.L[0], IntLit(1))}}}
		}
	}
	env := &specEnv{x: x, st: st, heap: st.heap, old: fr.oldHeap, names: names, fr: fr}
	backEdge := h.Dominates(pred)
	kind := "inv_init"
	if backEdge {
		kind = "inv_keep"
	}
	for _, cl := range x.con.Clauses {
		if cl.Kind == "invariant" && cl.Loop == ord && cl.appliesTo(x.eng.prop) {
			g := x.evalClause(env, cl.Expr, cl.Text)
			x.addVC(st, x.short, kind, ord, fmt.Sprintf("%d", cl.Ord), g, fmt.Sprintf("loop %d invariant: %s", ord, cl.Text), cl.Line)
		}
		if cl.Kind == "step" && cl.Loop == ord && backEdge && cl.appliesTo(x.eng.prop) && st.from == fmt.Sprintf("loop %d", ord) {
			g := x.evalClause(env, cl.Expr, cl.Text)
			x.addVC(st, x.short, "step", ord, fmt.Sprintf("%d", cl.Ord), g, fmt.Sprintf("loop %d step relation: %s", ord, cl.Text), cl.Line)
		}
		if cl.Kind == "trace_step" && cl.Loop == ord && backEdge && cl.appliesTo(x.eng.prop) && st.from == fmt.Sprintf("loop %d", ord) && x.eng.cfg.Layers["trace"] {
			// the events of one whole iteration (header to header) must match the pattern
			ok, err := traceMatches(cl.Arg, st.trace)
			if err != nil {
				x.fail("bad trace pattern %q: %v", cl.Arg, err)
			}
			name := fmt.Sprintf("%d", cl.Ord)
			if ok {
				x.eng.noteTrivial(fmt.Sprintf("%s/%s/trace_step#%d.%s", x.eng.prop, x.short, ord, name), x.short, "trace_step", ord, cl.Text)
			} else {
				cond := x.evalClause(env, cl.Cond, cl.Text)
				x.addVC(st, x.short, "trace_step", ord, name, Not(cond), fmt.Sprintf("events of one iteration of loop %d [%s] must match %s when %s", ord, strings.TrimSpace(traceString(st.trace)), cl.Arg, cl.Text), cl.Line)
			}
		}
		if cl.Kind == "trace_entry" && cl.Loop == ord && !backEdge && cl.appliesTo(x.eng.prop) && st.from == "entry" && x.eng.cfg.Layers["trace"] {
			// the events from the function's entry to the first arrival at this loop
			ok, err := traceMatches(cl.Arg, st.trace)
			if err != nil {
				x.fail("bad trace pattern %q: %v", cl.Arg, err)
			}
			name := fmt.Sprintf("%d", cl.Ord)
			if ok {
				x.eng.noteTrivial(fmt.Sprintf("%s/%s/trace_entry#%d.%s", x.eng.prop, x.short, ord, name), x.short, "trace_entry", ord, cl.Text)
			} else {
				cond := x.evalClause(env, cl.Cond, cl.Text)
				x.addVC(st, x.short, "trace_entry", ord, name, Not(cond), fmt.Sprintf("events from entry to loop %d [%s] must match %s when %s", ord, strings.TrimSpace(traceString(st.trace)), cl.Arg, cl.Text), cl.Line)
			}
		}
		if cl.Kind == "decreases" && cl.Loop == ord && backEdge {
			if prev, ok := st.ghost[fmt.Sprintf("$variant%d", ord)]; ok {
				cur := x.evalSpec(env, cl.Expr)
				g := And(Lt(cur.L[0], prev.L[0]), Le(IntLit(0), prev.L[0]))
				x.addVC(st, x.short, "decreases", ord, fmt.Sprintf("%d", cl.Ord), g, fmt.Sprintf("loop %d variant decreases and is bounded: %s", ord, cl.Text), cl.Line)
			}
		}
	}
	if x.eng.cfg.Layers["contract"] && x.framed() && !x.collecting {
		x.checkFrame(st, fr)
	}
	if x.eng.cfg.Layers["contract"] {
		x.checkAllocates(st, fr)
	}
	x.lockCheckAtHeader(st, fr, ord, backEdge)
}

// checkLoopExit: "loop N exit <expr>" clauses. A path that began at N's header leaves the loop when,
// outside N's blocks, it is about to execute the first instruction that lies behind the loop
// statement in the source (or arrives at a loop header outside N). A return or panic written
// inside the loop body is not an exit. prev(e) is e at the start of that last iteration; local
// names have their values at the exit point, so statements of the body that run on the way out
// (x = f(x); break) are included.
func (x *fnCtx) checkLoopExit(st *State, fr *Frame, b *ssa.BasicBlock, in ssa.Instruction) {
	n := x.fromLoop(st)
	if n == 0 || x.loopBlocks(x.hdrList[n-1])[b] {
		return
	}
	if in != nil {
		end := x.loopEnd(n)
		if p := in.Pos(); !p.IsValid() || p <= end {
			return
		}
	}
	st.exitChecked = true
	for _, cl := range x.con.Clauses {
		if cl.Kind != "exit" || cl.Loop != n || !cl.appliesTo(x.eng.prop) {
			continue
		}
		env := &specEnv{x: x, st: st, heap: st.heap, old: fr.oldHeap, names: fr.names, fr: fr}
		g := x.evalClause(env, cl.Expr, cl.Text)
		x.addVC(st, x.short, "exit", cl.Loop, fmt.Sprintf("%d", cl.Ord), g, fmt.Sprintf("loop %d exit condition: %s", cl.Loop, cl.Text), cl.Line)
	}
}

// staleBinding: can an assignment to the variable called name, other than the one that
// established the binding (value val in dominating block blk; blk == nil: a parameter), reach
// header h? Every path to h passes blk, so another assignment matters exactly when its block
// is reachable from blk and reaches h.
func (x *fnCtx) staleBinding(name string, blk *ssa.BasicBlock, val ssa.Value, h *ssa.BasicBlock) bool {
	// reaches: is there a path from a successor of b to h that does not pass blk?
	reaches := func(b *ssa.BasicBlock) bool {
		seen := map[*ssa.BasicBlock]bool{}
		stack := append([]*ssa.BasicBlock(nil), b.Succs...)
		for len(stack) > 0 {
			c := stack[len(stack)-1]
			stack = stack[:len(stack)-1]
			if seen[c] || c == blk {
				continue
			}
			if c == h {
				return true
			}
			seen[c] = true
			stack = append(stack, c.Succs...)
		}
		return false
	}
	same := func(a, b ssa.Value) bool {
		if a == b {
			return true
		}
		ca, ok1 := a.(*ssa.Const)
		cb, ok2 := b.(*ssa.Const)
		if ok1 && ok2 && types.Identical(ca.Type(), cb.Type()) {
			if ca.Value == nil || cb.Value == nil {
				return ca.Value == nil && cb.Value == nil
			}
			return constant.Compare(ca.Value, token.EQL, cb.Value)
		}
		return false
	}
	for _, b := range x.fn.Blocks {
		if b == blk {
			continue
		}
		hit := false
		for _, in := range b.Instrs {
			switch v := in.(type) {
			case *ssa.DebugRef:
				if obj := v.Object(); obj != nil && obj.Name() == name && !v.IsAddr {
					if _, isVar := obj.(*types.Var); isVar && !same(v.X, val) {
						hit = true
					}
				}
			case *ssa.Phi:
				if v.Comment == name && b != h && !same(v, val) {
					hit = true
				}
			}
		}
		if hit && reaches(b) {
			return true
		}
	}
	return false
}

// fromLoop: the ordinal of the loop at whose header the path began (0: function entry)
func (x *fnCtx) fromLoop(st *State) int {
	if !strings.HasPrefix(st.from, "loop ") {
		return 0
	}
	n, _ := strconv.Atoi(st.from[5:])
	if n < 1 || n > len(x.hdrList) {
		return 0
	}
	return n
}

// loopEnd: end position of the n-th for/range statement of the function in source order. The
// loop headers are numbered by block index, which is source order for structured loops; a
// function whose header count differs from its loop statement count (goto loops, loops removed
// as dead) cannot carry exit clauses.
func (x *fnCtx) loopEnd(n int) token.Pos {
	if x.loopEnds == nil {
		var body ast.Node
		switch f := x.fn.Syntax().(type) {
		case *ast.FuncDecl:
			body = f.Body
		case *ast.FuncLit:
			body = f.Body
		}
		if body == nil {
			x.fail("exit clause: no syntax for %s", x.short)
		}
		ast.Inspect(body, func(nd ast.Node) bool {
			switch s := nd.(type) {
			case *ast.FuncLit:
				return false
			case *ast.ForStmt:
				x.loopEnds = append(x.loopEnds, s.End())
			case *ast.RangeStmt:
				x.loopEnds = append(x.loopEnds, s.End())
			}
			return true
		})
		if len(x.loopEnds) != len(x.hdrList) {
			x.fail("exit clause: %d loop statements but %d loop headers in %s", len(x.loopEnds), len(x.hdrList), x.short)
		}
	}
	return x.loopEnds[n-1]
}

// checkPost: postconditions, frame, trace and lock clauses at a normal return of the top frame.
func (x *fnCtx) checkPost(st *State, fr *Frame, res []*Val) {
	names := map[string]nameBind{}
	for k, v := range fr.names {
		names[k] = v // locals as of the return (used by trace conditions)
	}
	for k, v := range x.paramNames(fr) {
		names[k] = v // parameters denote their entry values
	}
	results := x.fn.Signature.Results()
	for i, r := range res {
		if i < results.Len() && results.At(i).Name() != "" {
			names[results.At(i).Name()] = nameBind{v: r}
		}
		names[fmt.Sprintf("result%d", i)] = nameBind{v: r}
	}
	if len(res) == 1 {
		if _, taken := names["result"]; !taken {
			names["result"] = nameBind{v: res[0]}
		}
	}
	for k, v := range st.ghost {
		if !strings.HasPrefix(k, "$") {
			names[k] = nameBind{v: v}
		}
	}
	env := &specEnv{x: x, st: st, heap: st.heap, old: fr.oldHeap, names: names, fr: fr}
	if x.eng.cfg.Layers["contract"] {
		for _, cl := range x.con.ClausesOf("ensures") {
			if !cl.appliesTo(x.eng.prop) {
				continue
			}
			g := x.evalClause(env, cl.Expr, cl.Text)
			x.addVC(st, x.short, "post", cl.Ord, "", g, "ensures "+cl.Text, cl.Line)
		}
		// frame: heap arrays changed must be covered by modifies
		if x.framed() && !x.collecting {
			x.checkFrame(st, fr)
		}
		x.checkAllocates(st, fr)
	}
	if x.eng.cfg.Layers["trace"] {
		x.reachedReturn = true
		x.checkTrace(st, env, "trace_ensures")
	}
	x.lockCheckAtReturn(st, fr, env)
	if !x.collecting {
		x.eng.coverReached(x.short)
	}
}

func (x *fnCtx) checkAllocates(st *State, fr *Frame) {
	if len(x.eng.tracked) > 0 && x.con != nil && !x.collecting {
		// objects of tracked types are created only where the contract declares it
		bk := BVar("r", SInt)
		alloc0 := fr.oldHeap.get("$alloc", ArrSort(SInt, SBool))
		cur := x.heapArr(st, "$alloc", ArrSort(SInt, SBool))
		tags := x.eng.trackedTags(append([]string{}, x.con.Allocates...))
		g := Forall([]*Term{bk}, Implies(And(Select(cur, bk), Not(Select(alloc0, bk))), typeAmong(bk, tags)), Select(typeHeap, bk))
		x.addVC(st, x.short, "frame", 1, "allocates", g, "objects of tracked types are allocated only as declared (allocates)", "")
	}
}

func (x *fnCtx) checkFrame(st *State, fr *Frame) {
	var bad []string
	for name, cur := range st.heap.m {
		if strings.HasPrefix(name, "$") && name != "$maplen" {
			continue
		}
		old, ok := fr.oldHeap.m[name]
		var init *Term
		if ok {
			init = old
		} else if st.heap.epoch == 0 && !st.heap.poison[name] {
			init = Sym("H."+name, cur.Sort)
		}
		if init != nil && init == cur {
			continue
		}
		covered := x.coveredByModifies(name)
		// writes to objects allocated by this call are not visible to the caller... they are,
		// through returned references; but fresh-object initialisation is permitted:
		if !covered {
			bad = append(bad, name)
		}
	}
	sort.Strings(bad)
	for _, name := range bad {
		cur := st.heap.m[name]
		old := fr.oldHeap.get(name, cur.Sort)
		// permitted when the arrays differ only at references allocated during the call
		idxS, _ := cur.Sort.ArrParts()
		if idxS != SInt {
			x.addVC(st, x.short, "frame", 1, sanitize(name), Eq(cur, old), "heap component "+name+" is not in the modifies clause", "")
			continue
		}
		bk := BVar("r", SInt)
		alloc0 := fr.oldHeap.get("$alloc", ArrSort(SInt, SBool))
		g := Forall([]*Term{bk}, Implies(Select(alloc0, bk), Eq(Select(cur, bk), Select(old, bk))), Select(cur, bk))
		x.addVC(st, x.short, "frame", 1, sanitize(name), g, "heap component "+name+" of pre-existing objects is not in the modifies clause", "")
	}
}

// framed: the function has a frame to check: an explicit modifies list, or `keeps stable`
// (everything may change except the stable / private fields of pre-existing objects)
func (x *fnCtx) framed() bool {
	return (x.con.HasMod && !x.con.ModAll) || x.con.KeepStable
}

// matchesComponent: name is one of the listed heap components (or a part of one)
func matchesComponent(list []string, name string) bool {
	for _, m := range list {
		if name == m || strings.HasPrefix(name, m+"#") || strings.HasPrefix(name, m+".") || (strings.HasSuffix(m, ":") && strings.HasPrefix(name, m)) {
			return true
		}
	}
	return false
}

func (x *fnCtx) coveredByModifies(name string) bool {
	if x.con.KeepStable && (x.con.ModAll || !x.con.HasMod) {
		_, stable := stableOwner[name]
		return !stable || matchesComponent(x.con.KeepExcept, name)
	}
	for _, m := range x.con.Modifies {
		if name == m || strings.HasPrefix(name, m+"#") || strings.HasPrefix(name, m+".") || (strings.HasSuffix(m, ":") && strings.HasPrefix(name, m)) {
			return true
		}
	}
	return false
}

func (x *fnCtx) checkTrace(st *State, env *specEnv, kind string) {
	for _, cl := range x.con.ClausesOf(kind) {
		if !cl.appliesTo(x.eng.prop) {
			continue
		}
		pat := cl.Arg
		neg := strings.HasPrefix(pat, "!")
		pat = strings.TrimPrefix(pat, "!")
		if st.from != "entry" && strings.HasPrefix(pat, "^") {
			// the event prefix of a path that starts at a loop header is unknown: ^-anchored
			// patterns are decided on entry paths only; suffix patterns (and negated ones: the
			// events after the loop) on every path
			x.eng.logAbs("%s: ^-anchored trace clauses are not checked on paths starting at a loop header", x.short)
			continue
		}
		ok, err := traceMatches(pat, st.trace)
		if err != nil {
			x.fail("bad trace pattern %q: %v", cl.Arg, err)
		}
		if neg {
			ok = !ok
		}
		cond := x.evalClause(env, cl.Cond, cl.Text)
		if cond.Kind == KSym && strings.HasPrefix(cond.Op, "unevaluable") {
			x.addVC(st, x.short, kind, cl.Ord, "", False, "trace clause condition cannot be evaluated: "+cl.Text, cl.Line)
			continue
		}
		if ok {
			// count the obligation as generated even when it is decided syntactically
			x.eng.noteTrivial(fmt.Sprintf("%s/%s/%s#%d", x.eng.prop, x.short, kind, cl.Ord), x.short, kind, cl.Ord, cl.Text)
			continue
		}
		if os.Getenv("GOWP_DEBUG_TRACE") != "" {
			fmt.Fprintf(os.Stderr, "TRACE %s %s#%d: [%s]\n", x.short, kind, cl.Ord, strings.TrimSpace(traceString(st.trace)))
		}
		x.addVC(st, x.short, kind, cl.Ord, "", Not(cond), fmt.Sprintf("event trace [%s] must match %s when %s", strings.TrimSpace(traceString(st.trace)), cl.Arg, cl.Cond.String()), cl.Line)
	}
}

func (e *Engine) noteTrivial(name, fn, kind string, ord int, desc string) {
	if ob, ok := e.obls[name]; ok {
		_ = ob
		return
	}
	ob := &Obligation{Name: name, Func: fn, Kind: kind, Ord: ord, Desc: desc}
	e.obls[name] = ob
	e.order = append(e.order, name)
}

var covered = map[string]bool{}

func (e *Engine) coverReached(fn string) { covered[fn] = true }

// checkPanic: a path of the top function ends in a panic.
func (x *fnCtx) checkPanic(st *State, in ssa.Instruction, why string) {
	fr := st.frames[0]
	names := x.paramNames(fr)
	env := &specEnv{x: x, st: st, heap: st.heap, old: fr.oldHeap, names: names, fr: fr}
	var allowed []*Term
	for _, cl := range x.con.ClausesOf("panics_if") {
		allowed = append(allowed, x.evalSpecBool(&specEnv{x: x, st: st, heap: fr.oldHeap, old: fr.oldHeap, names: names, fr: fr}, cl.Expr))
	}
	if x.eng.cfg.Layers["safety"] {
		pos := ""
		ord := 0
		if in != nil {
			pos = x.eng.posStr(in.Pos())
			ord = x.ord(st.top(), in)
		}
		x.addVC(st, x.curShort(st.top()), "panic", ord, "", Or(allowed...), "panic reachable: "+why, pos)
	}
	if x.eng.cfg.Layers["trace"] {
		x.checkTrace(st, env, "trace_panics")
	}
}

// ---------------- builtins ----------------

func (x *fnCtx) rangeCopy(st *State, dst *Term, dstStart *Term, n *Term, src func(k *Term) *Term, hint string) *Term {
	if nv, ok := n.IntVal(); ok && nv <= 4 {
		out := dst
		for i := int64(0); i < nv; i++ {
			out = Store(out, Add(dstStart, IntLit(i)), src(IntLit(i)))
		}
		return out
	}
	out := Fresh(hint, dst.Sort)
	bk := BVar("k", SInt)
	inR := And(Le(dstStart, bk), Lt(bk, Add(dstStart, n)))
	body := Eq(Select(out, bk), Ite(inR, src(Sub(bk, dstStart)), Select(dst, bk)))
	st.assume(Forall([]*Term{bk}, body, Select(out, bk)))
	return out
}

func (x *fnCtx) builtin(st *State, fr *Frame, in ssa.Instruction, b *ssa.Builtin, c *ssa.CallCommon, args []*Val, rt types.Type) *Val {
	switch b.Name() {
	case "len", "cap":
		return x.builtinLenCap(st, fr, b.Name(), c.Args[0], rt)
	case "append":
		s := args[0]
		t := args[1]
		sl := rt.Underlying().(*types.Slice)
		el := sl.Elem()
		s = x.coerce(s, rt)
		var tlen *Term
		var tsrc func(leaf int) func(k *Term) *Term
		if isString(t.T) {
			tlen = SLen(t.L[0])
			tsrc = func(leaf int) func(k *Term) *Term { return func(k *Term) *Term { return SAt(t.L[0], k) } }
		} else {
			t = x.coerce(t, rt)
			tlen = t.Len()
			tsrc = func(leaf int) func(k *Term) *Term {
				arr := x.elemArr(st, el, t.Arr(), leaf)
				return func(k *Term) *Term { return Select(arr, Add(t.Off(), k)) }
			}
		}
		n := Add(s.Len(), tlen)
		inplace := Le(n, s.Cap())
		nref := x.newRef(st, "append")
		ncap := Fresh("append.cap", SInt)
		st.assume(And(Le(n, ncap), Le(ncap, BigLit(maxLen))))
		if x.eng.cfg.Layers["safety"] {
			// growth beyond the assumed memory bound is an allocation failure, not modelled
		}
		for li, l := range layout(el) {
			src := tsrc(li)
			oldArr := x.elemArr(st, el, s.Arr(), li)
			// in-place: write t after the current length
			inArr := x.rangeCopy(st, oldArr, Add(s.Off(), s.Len()), tlen, src, "append.in")
			// reallocated: copy s then t
			newArr := Fresh("append.new", ArrSort(SInt, l.Sort))
			bk := BVar("k", SInt)
			st.assume(Forall([]*Term{bk}, Implies(And(Le(IntLit(0), bk), Lt(bk, s.Len())), Eq(Select(newArr, bk), Select(oldArr, Add(s.Off(), bk)))), Select(newArr, bk)))
			newArr2 := x.rangeCopy(st, newArr, s.Len(), tlen, src, "append.new2")
			name := elemHeapName(el) + l.Suffix
			heap := x.heapArr(st, name, ArrSort(SInt, ArrSort(SInt, l.Sort)))
			x.setHeap(st, name, Ite(inplace, Store(heap, s.Arr(), inArr), Store(heap, nref, newArr2)))
		}
		// appending nothing to a nil slice yields nil
		res := &Val{T: rt, L: []*Term{
			Ite(inplace, s.Arr(), nref),
			Ite(inplace, s.Off(), IntLit(0)),
			n,
			Ite(inplace, s.Cap(), ncap),
		}}
		return res
	case "copy":
		d, s := args[0], args[1]
		el := d.T.Underlying().(*types.Slice).Elem()
		var slen *Term
		if isString(s.T) {
			slen = SLen(s.L[0])
		} else {
			slen = s.Len()
		}
		n := Ite(Lt(d.Len(), slen), d.Len(), slen)
		for li := range layout(el) {
			var src func(k *Term) *Term
			if isString(s.T) {
				src = func(k *Term) *Term { return SAt(s.L[0], k) }
			} else {
				sarr := x.elemArr(st, el, s.Arr(), li)
				src = func(k *Term) *Term { return Select(sarr, Add(s.Off(), k)) }
			}
			darr := x.elemArr(st, el, d.Arr(), li)
			x.setElemArr(st, el, d.Arr(), li, x.rangeCopy(st, darr, d.Off(), n, src, "copy"))
		}
		return scalar(rt, n)
	case "delete":
		m, k := args[0], args[1]
		x.lockCheckMap(st, fr, in, m, true)
		if mt, ok := m.T.Underlying().(*types.Map); ok {
			if _, ok2 := mapSorts(mt); ok2 {
				x.mapDelete(st, m, mapKey(x.coerce(k, mt.Key())))
			}
		}
		return nil
	case "close":
		ch := args[0]
		closed := x.heapArr(st, "$chanclosed", ArrSort(SInt, SBool))
		if x.eng.cfg.Layers["safety"] {
			kind := "call"
			if ch.Src != nil {
				if ts, g := x.chanGuardOf(ch.Src); ts != nil && g != nil {
					kind = "chanclose" // decided in the concurrent pass: needs the guarding lock
				}
			}
			x.addVC(st, x.curShort(fr), kind, x.ord(fr, in), "close", And(Ne(ch.L[0], IntLit(0)), Not(Select(closed, ch.L[0]))), "close of nil or closed channel", x.eng.posStr(in.Pos()))
		}
		x.setHeap(st, "$chanclosed", Store(closed, ch.L[0], True))
		return nil
	case "panic":
		x.doPanic(st, in, "panic()")
		st.dead = true
		return nil
	case "print", "println":
		return nil
	case "recover":
		return x.havocVal(st, rt, "recover")
	case "min", "max":
		a, b2 := args[0].L[0], args[1].L[0]
		if b.Name() == "min" {
			return scalar(rt, Ite(Lt(a, b2), a, b2))
		}
		return scalar(rt, Ite(Lt(a, b2), b2, a))
	}
	x.fail("unsupported builtin %s", b.Name())
	return nil
}

// ---------------- interface method calls ----------------

func (x *fnCtx) invoke(st *State, fr *Frame, in ssa.Instruction, c *ssa.CallCommon, name string, recv *Val, args []*Val, rt types.Type, k func(*State, *Val)) {
	if x.eng.cfg.Layers["safety"] {
		x.addVC(st, x.curShort(fr), "nil", x.ord(fr, in), "iface", Ne(recv.Tag(), IntLit(0)), "method call on nil interface ("+c.Method.Name()+")", x.eng.posStr(in.Pos()))
	}
	x.assumeSafe(st, Ne(recv.Tag(), IntLit(0)))
	// statically known dynamic type: dispatch
	if tv, ok := recv.Tag().IntVal(); ok {
		if dt, ok2 := tagTypes[tv]; ok2 {
			if m := x.eng.prog.LookupMethod(dt, c.Method.Pkg(), c.Method.Name()); m != nil {
				r := x.unbox(st, recv, dt)
				x.callFunction(st, fr, in, m, nil, append([]*Val{r}, args...), rt, k)
				return
			}
		}
	}
	// interface contract
	key := typeStrQ(c.Value.Type()) + "." + c.Method.Name()
	con := x.eng.db.Ifaces[key]
	if con == nil {
		// embedded interfaces: try the interface that declares the method
		if named, ok := c.Value.Type().(*types.Named); ok {
			_ = named
		}
		if obj := c.Method; obj != nil && obj.Pkg() != nil {
			if recvT := obj.Type().(*types.Signature).Recv(); recvT != nil {
				key2 := typeStrQ(recvT.Type()) + "." + c.Method.Name()
				con = x.eng.db.Ifaces[key2]
			}
		}
	}
	if con != nil {
		con.Used = true
		if con.ParamNames == nil {
			con.ParamNames = []string{"self"}
			sig := c.Method.Type().(*types.Signature)
			for i := 0; i < sig.Params().Len(); i++ {
				con.ParamNames = append(con.ParamNames, sig.Params().At(i).Name())
			}
		}
		res := x.applyContract(st, fr, in, con, c.Method.Type().(*types.Signature), nil, append([]*Val{recv}, args...), rt, key)
		if st.dead {
			return
		}
		k(st, res)
		return
	}
	pkgPath := ""
	if c.Method.Pkg() != nil {
		pkgPath = c.Method.Pkg().Path()
	}
	if strings.HasPrefix(pkgPath, repoPrefix) {
		x.eng.logAbs("%s: invoke of %s without interface contract: heap havoced", x.short, key)
		x.havocAllHeap(st, "invoke "+key, append([]*Val{recv}, args...)...)
	} else {
		x.eng.logAbs("%s: invoke of external %s without contract: result havoced, slice arguments havoced", x.short, key)
		x.havocArgs(st, args)
	}
	var res *Val
	if rt != nil {
		res = x.havocVal(st, rt, "inv."+c.Method.Name())
	}
	k(st, res)
}

// mentionsHeapSym: the term reads some heap component (symbols named H....)
func mentionsHeapSym(t *Term) bool {
	seen := map[*Term]bool{}
	var rec func(t *Term) bool
	rec = func(t *Term) bool {
		if seen[t] {
			return false
		}
		seen[t] = true
		if t.Kind == KSym && (strings.HasPrefix(t.Op, "H.") || strings.HasPrefix(t.Op, "lock0")) {
			return true
		}
		for _, a := range t.Args {
			if rec(a) {
				return true
			}
		}
		for _, p := range t.Pats {
			if rec(p) {
				return true
			}
		}
		return false
	}
	return rec(t)
}

// inductionPhi: the counter of a canonical index loop at header h — an integer phi that every
// back edge increments by one — when the header has no range index of its own. With several
// candidates the one tested by the header's condition is taken.
func inductionPhi(h *ssa.BasicBlock) *ssa.Phi {
	var cands []*ssa.Phi
	for _, in := range h.Instrs {
		phi, ok := in.(*ssa.Phi)
		if !ok {
			break
		}
		if phi.Comment == "rangeindex" {
			return nil
		}
		if b, ok := phi.Type().Underlying().(*types.Basic); !ok || b.Info()&types.IsInteger == 0 {
			continue
		}
		okAll, back, fwd := true, 0, 0
		for i, pred := range h.Preds {
			if h.Dominates(pred) {
				back++
				bo, ok := phi.Edges[i].(*ssa.BinOp)
				if !ok || bo.Op != token.ADD {
					okAll = false
					break
				}
				one := func(v ssa.Value) bool {
					c, ok := v.(*ssa.Const)
					return ok && c.Value != nil && c.Value.String() == "1"
				}
				if !((bo.X == ssa.Value(phi) && one(bo.Y)) || (bo.Y == ssa.Value(phi) && one(bo.X))) {
					okAll = false
					break
				}
			} else {
				fwd++
			}
		}
		if okAll && back > 0 && fwd > 0 {
			cands = append(cands, phi)
		}
	}
	if len(cands) == 1 {
		return cands[0]
	}
	if len(cands) > 1 && len(h.Instrs) > 0 {
		if ifi, ok := h.Instrs[len(h.Instrs)-1].(*ssa.If); ok {
			if bo, ok := ifi.Cond.(*ssa.BinOp); ok {
				for _, c := range cands {
					if bo.X == ssa.Value(c) || bo.Y == ssa.Value(c) {
						return c
					}
				}
			}
		}
	}
	return nil
}
