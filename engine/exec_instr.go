package main

import (
	"fmt"
	"go/constant"
	"go/token"
	"go/types"
	"strings"

	"golang.org/x/tools/go/ssa"
)

type engineError struct{ msg string }

func (x *fnCtx) fail(format string, a ...interface{}) {
	panic(engineError{fmt.Sprintf("%s: ", x.short) + fmt.Sprintf(format, a...)})
}

// getVal returns the symbolic value of an SSA value in the current frame.
func (x *fnCtx) getVal(st *State, fr *Frame, v ssa.Value) *Val {
	if r, ok := fr.regs[v]; ok {
		return r
	}
	var out *Val
	switch c := v.(type) {
	case *ssa.Const:
		out = x.constVal(c)
	case *ssa.Global:
		// address of a package-level variable: a cell with a stable reference
		el := c.Type().(*types.Pointer).Elem()
		ref := Sym("G@"+c.Pkg.Pkg.Path()+"."+c.Name(), SInt)
		out = &Val{T: c.Type(), L: []*Term{ref}, A: &Addr{Kind: ACell, Base: ref, Elem: el}}
		if _, ok := transparentStruct(el); ok {
			out.A = &Addr{Kind: AObj, Base: ref, Root: el, Elem: el}
		}
	case *ssa.Function:
		out = &Val{T: c.Type(), L: []*Term{Sym("F@"+c.String(), SInt)}, Fn: &FnVal{Fn: c}}
	case *ssa.Builtin:
		out = &Val{T: c.Type(), L: []*Term{IntLit(0)}}
	case *ssa.Parameter, *ssa.FreeVar:
		x.fail("unbound parameter %s", v.Name())
	default:
		// value defined in a dominating block of a path that started at a loop header
		in, ok := v.(ssa.Instruction)
		if !ok {
			x.fail("unknown value kind %T", v)
		}
		out = x.rederive(st, fr, in, v)
	}
	fr.regs[v] = out
	return out
}

// rederive recomputes pure dominating definitions; impure ones become stable symbols.
func (x *fnCtx) rederive(st *State, fr *Frame, in ssa.Instruction, v ssa.Value) *Val {
	hint := fmt.Sprintf("%s.%s", x.short, v.Name())
	switch i := in.(type) {
	case *ssa.BinOp:
		if i.Op != token.QUO && i.Op != token.REM {
			return x.binop(st, fr, i, true)
		}
	case *ssa.UnOp:
		if i.Op != token.MUL && i.Op != token.ARROW {
			return x.unop(st, fr, i)
		}
		if i.Op == token.MUL && x.writes["*"] && fr.isTop {
			// a load of immutable / stable / private state that this function never writes has
			// its entry value everywhere, whatever the callees do
			p := x.getVal(st, fr, i.X)
			a := x.addrOf(p)
			if a.Kind == AObj {
				base, _ := heapKeyStruct(a.Root, a.Path)
				all := true
				for _, l := range layout(a.Elem) {
					n := base + l.Suffix
					if !stableHeapNames[n] || x.writes[n] {
						all = false
					}
				}
				if all && len(layout(a.Elem)) > 0 {
					lv := x.load(st, a)
					lv.Src = a
					return lv
				}
			}
		}
		if i.Op == token.MUL && !x.writes["*"] && fr.isTop {
			// a load whose heap component is not written inside the current loop, and all of
			// whose writes happen before the load, has the value the component has at the header
			p := x.getVal(st, fr, i.X)
			a := x.addrOf(p)
			if a.Kind == AObj || a.Kind == ACell {
				var base string
				if a.Kind == AObj {
					base, _ = heapKeyStruct(a.Root, a.Path)
				} else {
					base = cellHeapName(a.Elem)
				}
				stable := true
				blk := i.Block()
				pos := 0
				for k, i2 := range blk.Instrs {
					if i2 == ssa.Instruction(i) {
						pos = k
					}
				}
				for _, l := range layout(a.Elem) {
					n := base + l.Suffix
					if !x.writes[n] {
						continue
					}
					if x.curHeader == nil || x.writtenInLoop(n, x.curHeader) || !x.writesDominate(n, blk, pos) {
						stable = false
					}
				}
				if stable {
					lv := x.load(st, a)
					lv.Src = a
					return lv
				}
			}
		}
	case *ssa.Convert:
		return x.convert(st, fr, i, true)
	case *ssa.ChangeType:
		return retype(x.getVal(st, fr, i.X), i.Type())
	case *ssa.ChangeInterface:
		return retype(x.getVal(st, fr, i.X), i.Type())
	case *ssa.MakeInterface:
		return x.makeInterface(st, x.getVal(st, fr, i.X), i.Type())
	case *ssa.FieldAddr:
		return x.fieldAddr(st, fr, i, true)
	case *ssa.IndexAddr:
		return x.indexAddr(st, fr, i, true)
	case *ssa.Slice:
		return x.sliceOp(st, fr, i, true)
	case *ssa.Extract:
		t := x.getVal(st, fr, i.Tuple)
		if t.Tup != nil {
			return t.Tup[i.Index]
		}
	case *ssa.Field:
		return x.fieldVal(st, fr, i)
	case *ssa.Call:
		if b, ok := i.Call.Value.(*ssa.Builtin); ok && (b.Name() == "len" || b.Name() == "cap") {
			return x.builtinLenCap(st, fr, b.Name(), i.Call.Args[0], i.Type())
		}
		// the result of a call bound once outside all loops is the stable ghost symbol
		if fr.isTop && x.con != nil {
			for _, td := range x.con.Traces {
				if td.As != "" && matchCallee(td.Pattern, calleeName(&i.Call)) && x.bindOutsideLoops(td) {
					out := freshVal(v.Type(), "ghost."+x.short+"."+td.As, true)
					for _, f := range rangeFacts(out) {
						st.assume(f)
					}
					return out
				}
			}
		}
	case *ssa.MakeSlice:
		ln := x.getVal(st, fr, i.Len).L[0]
		cp := x.getVal(st, fr, i.Cap).L[0]
		r := Sym(hint+"#arr", SInt)
		x.rederivedAllocFacts(st, fr, in, r)
		return &Val{T: i.Type(), L: []*Term{r, IntLit(0), ln, cp}}
	case *ssa.Alloc:
		r := Sym(hint, SInt)
		x.rederivedAllocFacts(st, fr, in, r)
		out := &Val{T: i.Type(), L: []*Term{r}}
		if !i.Heap {
			// a stack variable of this function (its address does not escape): callees that do
			// not receive its address leave it alone, also on a path that started at a loop head
			el := i.Type().Underlying().(*types.Pointer).Elem()
			var names []string
			if _, ok := transparentStruct(el); ok {
				base, _ := heapKeyStruct(el, nil)
				for _, l := range layout(el) {
					names = append(names, base+l.Suffix)
				}
			} else if _, isArr := el.Underlying().(*types.Array); !isArr {
				for _, l := range layout(el) {
					names = append(names, cellHeapName(el)+l.Suffix)
				}
			}
			for k, l := range layout(el) {
				if k < len(names) {
					heapSorts[names[k]] = ArrSort(SInt, l.Sort)
				}
			}
			if len(names) > 0 {
				st.stackObjs = append(st.stackObjs, stackObj{ref: r, names: names})
			}
		}
		return out
	case *ssa.MakeClosure:
		fnv := &FnVal{Fn: i.Fn.(*ssa.Function)}
		for _, b := range i.Bindings {
			fnv.Bindings = append(fnv.Bindings, x.getVal(st, fr, b))
		}
		return &Val{T: i.Type(), L: []*Term{Sym(hint, SInt)}, Fn: fnv}
	}
	out := freshVal(v.Type(), hint, true)
	for _, f := range rangeFacts(out) {
		st.assume(f)
	}
	return out
}

// rederivedAllocFacts: an allocation executed earlier in this call (before the loop head the
// path started from) is not part of the entry heap and differs from every reference that
// existed before it (values defined in dominating positions).
func (x *fnCtx) rederivedAllocFacts(st *State, fr *Frame, in ssa.Instruction, r *Term) {
	top := st.frames[0]
	if top.oldHeap != nil {
		alloc0 := hget(top.oldHeap, "$alloc", ArrSort(SInt, SBool))
		st.assume(Not(Select(alloc0, r)))
	}
	st.assume(Lt(IntLit(0), r))
	blk := in.Block()
	var before []ssa.Instruction
	for _, d := range domChain(blk) {
		before = append(before, d.Instrs...)
	}
	for _, i2 := range blk.Instrs {
		if i2 == in {
			break
		}
		before = append(before, i2)
	}
	for _, i2 := range before {
		v, ok := i2.(ssa.Value)
		if !ok {
			continue
		}
		if _, isPhi := i2.(*ssa.Phi); isPhi {
			continue
		}
		if _, isTup := v.Type().(*types.Tuple); isTup {
			continue
		}
		hasRef := false
		for _, l := range layout(v.Type()) {
			if l.Role == "ref" || l.Role == "arr" {
				hasRef = true
			}
		}
		if !hasRef {
			continue
		}
		ov := x.getVal(st, fr, v)
		for li, l := range layout(v.Type()) {
			if (l.Role == "ref" || l.Role == "arr") && li < len(ov.L) && ov.L[li] != r {
				st.assume(Ne(ov.L[li], r))
			}
		}
	}
}

func (x *fnCtx) constVal(c *ssa.Const) *Val {
	t := c.Type()
	if c.Value == nil {
		return zeroVal(t)
	}
	switch c.Value.Kind() {
	case constant.Bool:
		return scalar(t, BoolLit(constant.BoolVal(c.Value)))
	case constant.String:
		return scalar(t, StrLit(constant.StringVal(c.Value)))
	case constant.Int:
		if isInteger(t) || true {
			s := c.Value.ExactString()
			if _, ok := t.Underlying().(*types.Basic); ok && t.Underlying().(*types.Basic).Info()&types.IsFloat != 0 {
				return scalar(t, Sym("flt!"+s, SInt))
			}
			return scalar(t, BigLit(s))
		}
	}
	return scalar(t, Sym("const!"+sanitize(c.Value.ExactString()), SInt))
}

// ---------------- block / instruction loop ----------------

func (x *fnCtx) runBlock(st *State, b, pred *ssa.BasicBlock, starting bool) {
	fr := st.top()
	if st.dead {
		return
	}
	st.steps++
	if st.steps > 400 && x.unroll == 0 {
		x.fail("path too long (unbounded unrolling?)")
	}
	if x.unroll > 0 {
		// bounded mode (counterexample search only): loops are unrolled up to x.unroll visits
		if _, isHdr := x.headers[b]; isHdr && fr.isTop && !starting {
			if st.visits == nil {
				st.visits = map[*ssa.BasicBlock]int{}
			}
			st.visits[b]++
			if st.visits[b] > x.unroll || st.steps > 3000 {
				return
			}
		}
	} else if ord, isHdr := x.headers[b]; isHdr && fr.isTop && !starting {
		x.arriveAtHeader(st, fr, b, pred, ord)
		return
	}
	if _, isHdr := x.headers[b]; isHdr && !fr.isTop {
		x.fail("loop in inlined callee %s", fr.fn.Name())
	}
	// phis
	if !starting {
		var vals []*Val
		var phis []*ssa.Phi
		idx := -1
		for i, p := range b.Preds {
			if p == pred {
				idx = i
			}
		}
		for _, in := range b.Instrs {
			phi, ok := in.(*ssa.Phi)
			if !ok {
				break
			}
			phis = append(phis, phi)
			vals = append(vals, x.getVal(st, fr, phi.Edges[idx]))
		}
		for i, phi := range phis {
			v := vals[i]
			if v.T != phi.Type() {
				v = retype(v, phi.Type())
			}
			fr.regs[phi] = v
			if phi.Comment != "" {
				fr.names[phi.Comment] = nameBind{v: v}
			}
		}
	}
	x.runInstrs(st, b, 0)
}

func (x *fnCtx) runInstrs(st *State, b *ssa.BasicBlock, from int) {
	for i := from; i < len(b.Instrs); i++ {
		if st.dead {
			return
		}
		fr := st.top()
		in := b.Instrs[i]
		if fr.isTop {
			x.curBlock, x.curIdx = b, i
			if !st.exitChecked && x.hasExit && x.unroll == 0 && !x.collecting {
				x.checkLoopExit(st, fr, b, in)
			}
		}
		switch v := in.(type) {
		case *ssa.Phi:
			continue
		case *ssa.DebugRef:
			if id, ok := v.Expr.(interface{ String() string }); ok {
				_ = id
			}
			if obj := v.Object(); obj != nil {
				if tv, isVar := obj.(*types.Var); isVar && !tv.IsField() {
					if old, ok := fr.names[obj.Name()]; ok && old.isAddr && !v.IsAddr {
						if al, isAlloc := allocOf(fr, old.v); isAlloc && al.Comment == obj.Name() {
							continue // keep the binding to the variable's cell
						}
					}
					fr.names[obj.Name()] = nameBind{v: x.getVal(st, fr, v.X), isAddr: v.IsAddr}
				}
			}
		case *ssa.If:
			c := x.getVal(st, fr, v.Cond).L[0]
			tb, fb := b.Succs[0], b.Succs[1]
			if c == True {
				x.runBlock(st, tb, b, false)
				return
			}
			if c == False {
				x.runBlock(st, fb, b, false)
				return
			}
			x.paths++
			if x.paths > x.maxPaths {
				x.fail("path explosion (> %d paths)", x.maxPaths)
			}
			st2 := st.clone()
			st.assume(c)
			st2.assume(Not(c))
			// cover: the body of the loop whose header this is must be reachable under the
			// assumed invariants (guards against invariants that make the loop vacuous)
			if fr.isTop && !x.collecting && x.curHeader == b && strings.HasPrefix(st.from, "loop ") && len(st.frames) == 1 {
				lb := x.loopBlocks(b)
				if lb[tb] && !lb[fb] {
					x.vacuityCheck(st, strings.Replace(st.from, " ", "", 1)+".body")
				} else if lb[fb] && !lb[tb] {
					x.vacuityCheck(st2, strings.Replace(st.from, " ", "", 1)+".body")
				}
			}
			x.runBlock(st, tb, b, false)
			x.runBlock(st2, fb, b, false)
			return
		case *ssa.Jump:
			x.runBlock(st, b.Succs[0], b, false)
			return
		case *ssa.Return:
			var res []*Val
			for _, r := range v.Results {
				res = append(res, x.getVal(st, fr, r))
			}
			x.doReturn(st, res)
			return
		case *ssa.Panic:
			x.doPanic(st, v, "explicit panic")
			return
		case *ssa.RunDefers:
			idx := i
			x.runDefers(st, func(st2 *State) { x.runInstrs(st2, b, idx+1) })
			return
		case *ssa.Call:
			idx := i
			x.doCall(st, v, &v.Call, v, func(st2 *State, res *Val) {
				if res != nil {
					st2.top().regs[v] = res
				}
				x.runInstrs(st2, b, idx+1)
			})
			return
		case *ssa.Defer:
			d := deferred{call: &v.Call}
			d.fnv, d.args = x.evalCallOperands(st, fr, &v.Call)
			fr.defers = append(fr.defers, d)
		case *ssa.Go:
			x.doGo(st, fr, v)
		default:
			x.step(st, fr, in)
		}
	}
}

func (x *fnCtx) step(st *State, fr *Frame, in ssa.Instruction) {
	switch v := in.(type) {
	case *ssa.Alloc:
		fr.regs[v] = x.alloc(st, v)
		if v.Comment != "" && v.Comment != "complit" && v.Comment != "varargs" && v.Comment != "makeslice" {
			// an address-taken local: its name denotes the current content of the cell
			fr.names[v.Comment] = nameBind{v: fr.regs[v], isAddr: true}
		}
	case *ssa.BinOp:
		fr.regs[v] = x.binop(st, fr, v, false)
	case *ssa.UnOp:
		if v.Op == token.MUL {
			p := x.getVal(st, fr, v.X)
			x.checkNil(st, fr, in, p, "load")
			a := x.addrOf(p)
			x.lockCheckAccess(st, fr, in, a, false)
			lv := x.load(st, a)
			lv.Src = a
			if g, ok := v.X.(*ssa.Global); ok {
				if x.eng.db.Globals[g.Pkg.Pkg.Path()+"."+g.Name()] == "nonnil" {
					st.assume(Ne(lv.L[0], IntLit(0)))
					libUsed["global "+g.Pkg.Pkg.Path()+"."+g.Name()+" is non-nil (package initialisation, A-INIT)"] = true
				}
			}
			x.assumeValAllocated(st, lv)
			for _, f := range rangeFacts(lv) {
				st.assume(f)
			}
			fr.regs[v] = lv
		} else if v.Op == token.ARROW {
			ch := x.getVal(st, fr, v.X)
			_ = ch
			var res *Val
			if v.CommaOk {
				res = &Val{T: v.Type(), Tup: []*Val{freshVal(v.Type().(*types.Tuple).At(0).Type(), "recv", false), freshVal(types.Typ[types.Bool], "recvok", false)}}
			} else {
				res = freshVal(v.Type(), "recv", false)
			}
			for _, f := range rangeFacts(res) {
				st.assume(f)
			}
			x.eng.logAbs("%s: channel receive yields an unconstrained value", x.short)
			fr.regs[v] = res
		} else {
			fr.regs[v] = x.unop(st, fr, v)
		}
	case *ssa.Store:
		p := x.getVal(st, fr, v.Addr)
		x.checkNil(st, fr, in, p, "store")
		a := x.addrOf(p)
		x.lockCheckAccess(st, fr, in, a, true)
		val := x.getVal(st, fr, v.Val)
		x.atStoreClauses(st, fr, v, p, a, x.coerce(val, a.Elem))
		x.store(st, a, x.coerce(val, a.Elem))
	case *ssa.FieldAddr:
		fr.regs[v] = x.fieldAddr(st, fr, v, false)
	case *ssa.Field:
		fr.regs[v] = x.fieldVal(st, fr, v)
	case *ssa.IndexAddr:
		fr.regs[v] = x.indexAddr(st, fr, v, false)
	case *ssa.Index:
		fr.regs[v] = x.indexVal(st, fr, v)
	case *ssa.Slice:
		fr.regs[v] = x.sliceOp(st, fr, v, false)
	case *ssa.Convert:
		fr.regs[v] = x.convert(st, fr, v, false)
	case *ssa.ChangeType:
		fr.regs[v] = retype(x.getVal(st, fr, v.X), v.Type())
	case *ssa.ChangeInterface:
		fr.regs[v] = retype(x.getVal(st, fr, v.X), v.Type())
	case *ssa.MakeInterface:
		fr.regs[v] = x.makeInterface(st, x.getVal(st, fr, v.X), v.Type())
	case *ssa.TypeAssert:
		fr.regs[v] = x.typeAssert(st, fr, v)
	case *ssa.Extract:
		t := x.getVal(st, fr, v.Tuple)
		if t.Tup == nil {
			x.fail("extract from non-tuple %s", t)
		}
		e := t.Tup[v.Index]
		fr.regs[v] = e
	case *ssa.MakeSlice:
		fr.regs[v] = x.makeSlice(st, fr, v)
	case *ssa.MakeMap:
		r := x.newRef(st, "map")
		mv := &Val{T: v.Type(), L: []*Term{r}}
		x.mapInit(st, mv)
		fr.regs[v] = mv
	case *ssa.MakeChan:
		r := x.newRef(st, "chan")
		closed := x.heapArr(st, "$chanclosed", ArrSort(SInt, SBool))
		x.setHeap(st, "$chanclosed", Store(closed, r, False))
		fr.regs[v] = &Val{T: v.Type(), L: []*Term{r}}
	case *ssa.MakeClosure:
		fnv := &FnVal{Fn: v.Fn.(*ssa.Function)}
		for _, b := range v.Bindings {
			fnv.Bindings = append(fnv.Bindings, x.getVal(st, fr, b))
		}
		fr.regs[v] = &Val{T: v.Type(), L: []*Term{x.newRef(st, "closure")}, Fn: fnv}
	case *ssa.Lookup:
		fr.regs[v] = x.lookup(st, fr, v)
	case *ssa.MapUpdate:
		x.mapUpdate(st, fr, v)
	case *ssa.Range:
		fr.regs[v] = x.rangeInit(st, fr, v)
	case *ssa.Next:
		fr.regs[v] = x.rangeNext(st, fr, v)
	case *ssa.Select:
		fr.regs[v] = x.selectOp(st, fr, v)
	case *ssa.Send:
		ch := x.getVal(st, fr, v.Chan)
		val := x.getVal(st, fr, v.X)
		x.sendEvent(st, fr, v, ch, val)
	case *ssa.SliceToArrayPointer, *ssa.MultiConvert:
		x.eng.logAbs("%s: unsupported conversion %T havoced", x.short, in)
		fr.regs[in.(ssa.Value)] = x.havocVal(st, in.(ssa.Value).Type(), "conv")
	default:
		x.fail("unsupported instruction %T: %s", in, in.String())
	}
}

func (x *fnCtx) havocVal(st *State, t types.Type, hint string) *Val {
	v := freshVal(t, hint, false)
	for _, f := range rangeFacts(v) {
		st.assume(f)
	}
	x.assumeValAllocated(st, v)
	return v
}

// coerce adapts a value to the static type of the destination (untyped nil etc.).
func (x *fnCtx) coerce(v *Val, t types.Type) *Val {
	if len(v.L) == len(layout(t)) {
		if v.T != t {
			return retype(v, t)
		}
		return v
	}
	// nil constant of another shape
	allZero := true
	for _, l := range v.L {
		if !l.IsLit() {
			allZero = false
		}
	}
	if allZero {
		return zeroVal(t)
	}
	x.fail("cannot coerce %s to %s", v, typeStr(t))
	return nil
}

func (x *fnCtx) alloc(st *State, v *ssa.Alloc) *Val {
	el := v.Type().(*types.Pointer).Elem()
	r := x.newRef(st, "new."+sanitize(typeStr(el)))
	out := &Val{T: v.Type(), L: []*Term{r}}
	if _, ok := trackedElem(x.eng, v.Type()); ok {
		st.assume(Eq(Select(typeHeap, r), IntLit(typeTag(v.Type()))))
	} else if len(x.eng.tracked) > 0 {
		st.assume(Eq(Select(typeHeap, r), IntLit(0)))
	}
	a := x.addrOf(out)
	out.A = a
	// zero-initialise
	if arr, ok := el.Underlying().(*types.Array); ok {
		ez := zeroVal(arr.Elem())
		for li, l := range layout(arr.Elem()) {
			x.setElemArr(st, arr.Elem(), r, li, ConstArray(ArrSort(SInt, l.Sort), ez.L[li]))
		}
		return out
	}
	x.store(st, a, zeroVal(el))
	{
		// record the heap components holding this stack object
		var names []string
		switch a.Kind {
		case AObj:
			base, _ := heapKeyStruct(a.Root, a.Path)
			for _, l := range layout(el) {
				names = append(names, base+l.Suffix)
			}
		case ACell:
			for _, l := range layout(el) {
				names = append(names, cellHeapName(el)+l.Suffix)
			}
		}
		if len(names) > 0 {
			st.stackObjs = append(st.stackObjs, stackObj{ref: r, names: names})
		}
	}
	return out
}

func (x *fnCtx) makeSlice(st *State, fr *Frame, v *ssa.MakeSlice) *Val {
	ln := x.getVal(st, fr, v.Len).L[0]
	cp := x.getVal(st, fr, v.Cap).L[0]
	if x.eng.cfg.Layers["safety"] {
		x.addVC(st, x.curShort(fr), "makeslice", x.ord(fr, v), "", And(Le(IntLit(0), ln), Le(ln, cp), Le(cp, BigLit("4611686018427387904"))), "make: 0 <= len <= cap", x.eng.posStr(v.Pos()))
	}
	x.assumeSafe(st, And(Le(IntLit(0), ln), Le(ln, cp)))
	r := x.newRef(st, "mkslice")
	el := v.Type().Underlying().(*types.Slice).Elem()
	ez := zeroVal(el)
	for li, l := range layout(el) {
		x.setElemArr(st, el, r, li, ConstArray(ArrSort(SInt, l.Sort), ez.L[li]))
	}
	return &Val{T: v.Type(), L: []*Term{r, IntLit(0), ln, cp}}
}

func (x *fnCtx) curShort(fr *Frame) string {
	if fr.isTop {
		return x.short
	}
	pkg, key := funcKey(fr.fn)
	return shortPkg(pkg) + "." + key
}

var inlineOrds = map[*ssa.Function]map[ssa.Instruction]int{}

func (x *fnCtx) ord(fr *Frame, in ssa.Instruction) int {
	if fr.isTop {
		return x.siteOrd[in]
	}
	m := inlineOrds[fr.fn]
	if m == nil {
		m = map[ssa.Instruction]int{}
		counts := map[string]int{}
		for _, b := range fr.fn.Blocks {
			for _, i2 := range b.Instrs {
				if k := siteKind(i2); k != "" {
					counts[k]++
					m[i2] = counts[k]
				}
			}
		}
		inlineOrds[fr.fn] = m
	}
	return m[in]
}

func (x *fnCtx) checkNil(st *State, fr *Frame, in ssa.Instruction, p *Val, what string) {
	if !x.eng.cfg.Layers["safety"] {
		return
	}
	if p.A != nil && p.A.Kind == AObj && len(p.A.Path) > 0 {
		return // address of a field of a checked base
	}
	if p.A != nil && p.A.Kind == AElem && p.A.Idx != nil && !isPointerToArray(p.T) {
		return
	}
	r := p.L[0]
	if st.fresh[r] {
		return
	}
	if r.Kind == KSym && strings.HasPrefix(r.Op, "G@") {
		return
	}
	x.addVC(st, x.curShort(fr), "nil", x.ord(fr, in), "", Ne(r, IntLit(0)), "nil dereference ("+what+")", x.eng.posStr(in.Pos()))
	x.assumeSafe(st, Ne(r, IntLit(0)))
}

func isPointerToArray(t types.Type) bool {
	if p, ok := t.Underlying().(*types.Pointer); ok {
		_, isArr := p.Elem().Underlying().(*types.Array)
		return isArr
	}
	return false
}

func (x *fnCtx) fieldAddr(st *State, fr *Frame, v *ssa.FieldAddr, rederive bool) *Val {
	p := x.getVal(st, fr, v.X)
	if !rederive {
		x.checkNil(st, fr, v, p, "field address")
	}
	base := x.addrOf(p)
	ft := v.Type().(*types.Pointer).Elem()
	switch base.Kind {
	case AObj:
		na := &Addr{Kind: AObj, Base: base.Base, Root: base.Root, Path: append(append([]int(nil), base.Path...), v.Field), Elem: ft}
		return &Val{T: v.Type(), L: []*Term{fieldAddrTerm(na)}, A: na}
	case AElem, ACell:
		root := base.ERoot
		if root == nil {
			root = base.Elem
		}
		if _, ok := transparentStruct(root); ok {
			na := &Addr{Kind: base.Kind, Base: base.Base, Idx: base.Idx, Elem: ft, Owner: base.Owner, ERoot: root, Sub: append(append([]int(nil), base.Sub...), v.Field)}
			idx := base.Idx
			if idx == nil {
				idx = IntLit(0)
			}
			return &Val{T: v.Type(), L: []*Term{App("esub", SInt, base.Base, idx, IntLit(int64(v.Field)))}, A: na}
		}
		fallthrough
	default:
		// field of an opaque struct (external type): address is an uninterpreted function of the base
		st2 := p.T.Underlying().(*types.Pointer).Elem().Underlying().(*types.Struct)
		t := App(fmt.Sprintf("faddr.%s.%s", sanitize(typeStr(p.T)), st2.Field(v.Field).Name()), SInt, p.L[0])
		x.eng.logAbs("%s: field address into opaque struct %s", x.short, typeStr(p.T))
		return &Val{T: v.Type(), L: []*Term{t}}
	}
}

var fieldUIDs = map[string]int64{}

// fieldAddrTerm encodes the address of a field as base*1024 + uid (injective, linear).
func fieldAddrTerm(a *Addr) *Term {
	name, _ := heapKeyStruct(a.Root, a.Path)
	uid, ok := fieldUIDs[name]
	if !ok {
		uid = int64(len(fieldUIDs) + 1)
		fieldUIDs[name] = uid
	}
	return Add(Mul(a.Base, IntLit(1024)), IntLit(uid))
}

func (x *fnCtx) fieldVal(st *State, fr *Frame, v *ssa.Field) *Val {
	sv := x.getVal(st, fr, v.X)
	stt, ok := transparentStruct(sv.T)
	if !ok {
		x.eng.logAbs("%s: field read of opaque struct %s havoced", x.short, typeStr(sv.T))
		return x.havocVal(st, v.Type(), "field")
	}
	off := 0
	for i := 0; i < v.Field; i++ {
		off += len(layout(stt.Field(i).Type()))
	}
	n := len(layout(stt.Field(v.Field).Type()))
	return &Val{T: v.Type(), L: sv.L[off : off+n]}
}

func (x *fnCtx) indexAddr(st *State, fr *Frame, v *ssa.IndexAddr, rederive bool) *Val {
	base := x.getVal(st, fr, v.X)
	idx := x.getVal(st, fr, v.Index).L[0]
	et := v.Type().(*types.Pointer).Elem()
	switch bt := base.T.Underlying().(type) {
	case *types.Slice:
		if !rederive && x.eng.cfg.Layers["safety"] {
			x.addVC(st, x.curShort(fr), "index", x.ord(fr, v), "", And(Le(IntLit(0), idx), Lt(idx, base.Len())), "index in range", x.eng.posStr(v.Pos()))
		}
		if !rederive {
			x.assumeSafe(st, And(Le(IntLit(0), idx), Lt(idx, base.Len())))
		}
		a := &Addr{Kind: AElem, Base: base.Arr(), Idx: Add(base.Off(), idx), Elem: et, Owner: base.Src}
		return &Val{T: v.Type(), L: []*Term{App("eaddr", SInt, a.Base, a.Idx)}, A: a}
	case *types.Pointer:
		arr := bt.Elem().Underlying().(*types.Array)
		if !rederive && x.eng.cfg.Layers["safety"] {
			x.checkNil(st, fr, v, base, "array index")
			x.addVC(st, x.curShort(fr), "index", x.ord(fr, v), "", And(Le(IntLit(0), idx), Lt(idx, IntLit(arr.Len()))), "array index in range", x.eng.posStr(v.Pos()))
		}
		if !rederive {
			x.assumeSafe(st, And(Le(IntLit(0), idx), Lt(idx, IntLit(arr.Len()))))
		}
		a := &Addr{Kind: AElem, Base: base.L[0], Idx: idx, Elem: et}
		return &Val{T: v.Type(), L: []*Term{App("eaddr", SInt, a.Base, a.Idx)}, A: a}
	}
	x.fail("IndexAddr on %s", typeStr(base.T))
	return nil
}

func (x *fnCtx) indexVal(st *State, fr *Frame, v *ssa.Index) *Val {
	base := x.getVal(st, fr, v.X)
	idx := x.getVal(st, fr, v.Index).L[0]
	if isString(base.T) {
		s := base.L[0]
		if x.eng.cfg.Layers["safety"] {
			x.addVC(st, x.curShort(fr), "index", x.ord(fr, v), "", And(Le(IntLit(0), idx), Lt(idx, SLen(s))), "string index in range", x.eng.posStr(v.Pos()))
		}
		x.assumeSafe(st, And(Le(IntLit(0), idx), Lt(idx, SLen(s))))
		return scalar(v.Type(), SAt(s, idx))
	}
	x.eng.logAbs("%s: index of array value havoced", x.short)
	return x.havocVal(st, v.Type(), "idx")
}

func (x *fnCtx) sliceOp(st *State, fr *Frame, v *ssa.Slice, rederive bool) *Val {
	base := x.getVal(st, fr, v.X)
	var lo, hi, mx *Term
	if v.Low != nil {
		lo = x.getVal(st, fr, v.Low).L[0]
	} else {
		lo = IntLit(0)
	}
	if v.High != nil {
		hi = x.getVal(st, fr, v.High).L[0]
	}
	if v.Max != nil {
		mx = x.getVal(st, fr, v.Max).L[0]
	}
	check := func(goal *Term, desc string) {
		if !rederive {
			if x.eng.cfg.Layers["safety"] {
				x.addVC(st, x.curShort(fr), "slice", x.ord(fr, v), "", goal, desc, x.eng.posStr(v.Pos()))
			}
			x.assumeSafe(st, goal)
		}
	}
	switch bt := base.T.Underlying().(type) {
	case *types.Basic: // string
		s := base.L[0]
		if hi == nil {
			hi = SLen(s)
		}
		check(And(Le(IntLit(0), lo), Le(lo, hi), Le(hi, SLen(s))), "string slice bounds")
		return scalar(v.Type(), SSub(s, lo, hi))
	case *types.Slice:
		if hi == nil {
			hi = base.Len()
		}
		cp := base.Cap()
		if mx != nil {
			check(And(Le(IntLit(0), lo), Le(lo, hi), Le(hi, mx), Le(mx, cp)), "slice bounds (3-index)")
			return &Val{T: v.Type(), L: []*Term{base.Arr(), Add(base.Off(), lo), Sub(hi, lo), Sub(mx, lo)}, Src: base.Src}
		}
		check(And(Le(IntLit(0), lo), Le(lo, hi), Le(hi, cp)), "slice bounds (high <= cap)")
		return &Val{T: v.Type(), L: []*Term{base.Arr(), Add(base.Off(), lo), Sub(hi, lo), Sub(cp, lo)}, Src: base.Src}
	case *types.Pointer:
		arr := bt.Elem().Underlying().(*types.Array)
		n := IntLit(arr.Len())
		if hi == nil {
			hi = n
		}
		if !rederive {
			x.checkNil(st, fr, v, base, "slice of array")
		}
		cp := n
		if mx != nil {
			cp = mx
		}
		check(And(Le(IntLit(0), lo), Le(lo, hi), Le(hi, cp), Le(cp, n)), "array slice bounds")
		return &Val{T: v.Type(), L: []*Term{base.L[0], lo, Sub(hi, lo), Sub(cp, lo)}}
	}
	x.fail("Slice on %s", typeStr(base.T))
	return nil
}

func (x *fnCtx) builtinLenCap(st *State, fr *Frame, name string, arg ssa.Value, rt types.Type) *Val {
	a := x.getVal(st, fr, arg)
	switch a.T.Underlying().(type) {
	case *types.Slice:
		if name == "len" {
			return scalar(rt, a.Len())
		}
		return scalar(rt, a.Cap())
	case *types.Basic:
		return scalar(rt, SLen(a.L[0]))
	case *types.Map:
		lenArr := x.heapArr(st, "$maplen", ArrSort(SInt, SInt))
		l := Select(lenArr, a.L[0])
		st.assume(And(Le(IntLit(0), l), Le(l, BigLit(maxLen))))
		st.assume(Implies(Eq(a.L[0], IntLit(0)), Eq(l, IntLit(0))))
		return scalar(rt, l)
	case *types.Chan:
		r := Fresh("chanlen", SInt)
		st.assume(Le(IntLit(0), r))
		return scalar(rt, r)
	case *types.Pointer:
		if arr, ok := a.T.Underlying().(*types.Pointer).Elem().Underlying().(*types.Array); ok {
			return scalar(rt, IntLit(arr.Len()))
		}
	case *types.Array:
		return scalar(rt, IntLit(a.T.Underlying().(*types.Array).Len()))
	}
	x.fail("len/cap of %s", typeStr(a.T))
	return nil
}

// ---------------- arithmetic ----------------

func pow2(k int64) *Term {
	if k < 62 {
		return IntLit(int64(1) << uint(k))
	}
	s := "1"
	// big literal via repeated doubling in decimal is overkill; use constants
	switch k {
	case 62:
		s = "4611686018427387904"
	case 63:
		s = "9223372036854775808"
	case 64:
		s = "18446744073709551616"
	default:
		return nil
	}
	return BigLit(s)
}

func (x *fnCtx) binop(st *State, fr *Frame, v *ssa.BinOp, rederive bool) *Val {
	a := x.getVal(st, fr, v.X)
	b := x.getVal(st, fr, v.Y)
	rt := v.Type()
	switch v.Op {
	case token.EQL, token.NEQ:
		var eq *Term
		if len(a.L) != len(b.L) {
			// comparison with untyped nil
			if len(a.L) < len(b.L) {
				a = x.coerce(a, b.T)
			} else {
				b = x.coerce(b, a.T)
			}
		}
		if isSlice(a.T) { // only comparison with nil is legal
			other := b
			sl := a
			if !isSlice(b.T) || !b.L[2].IsLit() {
				if a.L[2].IsLit() {
					sl, other = b, a
				}
			}
			_ = other
			eq = x.sliceIsNil(sl)
		} else if isMap(a.T) || isPointer(a.T) {
			eq = Eq(a.L[0], b.L[0])
		} else if _, isFn := a.T.Underlying().(*types.Signature); isFn {
			eq = Eq(a.L[0], b.L[0])
		} else {
			eq = valEq(a, b)
		}
		if v.Op == token.NEQ {
			eq = Not(eq)
		}
		return scalar(rt, eq)
	}
	if isString(a.T) {
		switch v.Op {
		case token.ADD:
			return scalar(rt, SCat(a.L[0], b.L[0]))
		case token.LSS, token.LEQ, token.GTR, token.GEQ:
			lt := App("strlt", SBool, a.L[0], b.L[0])
			gt := App("strlt", SBool, b.L[0], a.L[0])
			// strict order facts
			st.assume(Not(And(lt, gt)))
			st.assume(Implies(Eq(a.L[0], b.L[0]), And(Not(lt), Not(gt))))
			st.assume(Implies(Ne(a.L[0], b.L[0]), Or(lt, gt)))
			switch v.Op {
			case token.LSS:
				return scalar(rt, lt)
			case token.GTR:
				return scalar(rt, gt)
			case token.LEQ:
				return scalar(rt, Not(gt))
			default:
				return scalar(rt, Not(lt))
			}
		}
	}
	if isBool(a.T) {
		switch v.Op {
		case token.AND, token.LAND:
			return scalar(rt, And(a.L[0], b.L[0]))
		case token.OR, token.LOR:
			return scalar(rt, Or(a.L[0], b.L[0]))
		}
	}
	if !isInteger(a.T) {
		x.eng.logAbs("%s: non-integer arithmetic (%s) havoced", x.short, typeStr(a.T))
		return x.havocVal(st, rt, "arith")
	}
	at, bt := a.L[0], b.L[0]
	switch v.Op {
	case token.LSS:
		return scalar(rt, Lt(at, bt))
	case token.LEQ:
		return scalar(rt, Le(at, bt))
	case token.GTR:
		return scalar(rt, Gt(at, bt))
	case token.GEQ:
		return scalar(rt, Ge(at, bt))
	}
	var res *Term
	switch v.Op {
	case token.ADD:
		res = Add(at, bt)
	case token.SUB:
		res = Sub(at, bt)
	case token.MUL:
		res = Mul(at, bt)
	case token.QUO, token.REM:
		if !rederive {
			if x.eng.cfg.Layers["safety"] {
				x.addVC(st, x.curShort(fr), "div", x.ord(fr, v), "", Ne(bt, IntLit(0)), "division by zero", x.eng.posStr(v.Pos()))
			}
			x.assumeSafe(st, Ne(bt, IntLit(0)))
		}
		// Go truncates toward zero; SMT div is floor for positive divisor. Exact for non-negative operands.
		q := Fresh("quo", SInt)
		r := Fresh("rem", SInt)
		st.assume(Eq(at, Add(Mul(q, bt), r)))
		st.assume(Implies(Ge(at, IntLit(0)), And(Ge(r, IntLit(0)), Or(Lt(r, bt), Lt(r, Neg(bt))))))
		st.assume(Implies(Lt(at, IntLit(0)), And(Le(r, IntLit(0)), Or(Gt(r, bt), Gt(r, Neg(bt))))))
		if _, isConst := bt.IntVal(); !isConst {
			x.eng.logAbs("%s: division by a non-constant (nonlinear)", x.short)
		}
		if v.Op == token.QUO {
			return scalar(rt, q)
		}
		return scalar(rt, r)
	case token.AND:
		if m, ok := bt.IntVal(); ok && m >= 0 && (m&(m+1)) == 0 {
			// x & (2^k - 1) == x mod 2^k for non-negative x
			res = Fresh("and", SInt)
			st.assume(Implies(Ge(at, IntLit(0)), Eq(res, Mod(at, IntLit(m+1)))))
			st.assume(And(Le(IntLit(0), res), Le(res, IntLit(m))))
			return scalar(rt, res)
		}
		res = App("bvand", SInt, at, bt)
		st.assume(Implies(And(Ge(at, IntLit(0)), Ge(bt, IntLit(0))), And(Le(IntLit(0), res), Le(res, at), Le(res, bt))))
		return scalar(rt, res)
	case token.OR:
		res = App("bvor", SInt, at, bt)
		st.assume(Implies(And(Ge(at, IntLit(0)), Ge(bt, IntLit(0))), And(Ge(res, at), Ge(res, bt), Le(res, Add(at, bt)))))
		return scalar(rt, res)
	case token.XOR:
		res = App("bvxor", SInt, at, bt)
		st.assume(Implies(And(Ge(at, IntLit(0)), Ge(bt, IntLit(0))), And(Ge(res, IntLit(0)), Le(res, Add(at, bt)))))
		return scalar(rt, res)
	case token.AND_NOT:
		res = App("bvandnot", SInt, at, bt)
		st.assume(Implies(Ge(at, IntLit(0)), And(Le(IntLit(0), res), Le(res, at))))
		return scalar(rt, res)
	case token.SHL:
		if k, ok := bt.IntVal(); ok && k >= 0 && k < 63 {
			res = Mul(at, pow2(k))
			return x.wrap(st, rt, res)
		}
		x.eng.logAbs("%s: shift by non-constant havoced", x.short)
		return x.havocVal(st, rt, "shl")
	case token.SHR:
		if k, ok := bt.IntVal(); ok && k >= 0 && k < 63 {
			q := Fresh("shr", SInt)
			p := pow2(k)
			st.assume(And(Le(Mul(q, p), at), Lt(at, Mul(Add(q, IntLit(1)), p))))
			return scalar(rt, q)
		}
		x.eng.logAbs("%s: shift by non-constant havoced", x.short)
		return x.havocVal(st, rt, "shr")
	default:
		x.fail("binop %s", v.Op)
	}
	// overflow: machine integers are modelled as mathematical integers plus an obligation
	if lo, hi, ok := intRange(rt); ok {
		inRange := And(Le(BigLit(lo), res), Le(res, BigLit(hi)))
		if !rederive && x.eng.cfg.Layers["overflow"] {
			x.addVC(st, x.curShort(fr), "overflow", x.ord(fr, v), "", inRange, fmt.Sprintf("no overflow in %s", v.Op), x.eng.posStr(v.Pos()))
		}
		if !rederive {
			st.assume(inRange)
		}
	}
	return scalar(rt, res)
}

// wrap reduces a mathematical result into the range of an unsigned type; signed results are
// assumed in range (overflow obligations cover + - *).
func (x *fnCtx) wrap(st *State, t types.Type, res *Term) *Val {
	if lo, hi, ok := intRange(t); ok {
		if lo == "0" {
			switch hi {
			case "255":
				return scalar(t, Mod(res, IntLit(256)))
			case "65535":
				return scalar(t, Mod(res, IntLit(65536)))
			case "4294967295":
				return scalar(t, Mod(res, IntLit(4294967296)))
			}
		}
	}
	return scalar(t, res)
}

func (x *fnCtx) sliceIsNil(s *Val) *Term {
	// a nil slice has arr == 0
	return Eq(s.Arr(), IntLit(0))
}

func (x *fnCtx) unop(st *State, fr *Frame, v *ssa.UnOp) *Val {
	a := x.getVal(st, fr, v.X)
	switch v.Op {
	case token.NOT:
		return scalar(v.Type(), Not(a.L[0]))
	case token.SUB:
		if isInteger(a.T) {
			return scalar(v.Type(), Neg(a.L[0]))
		}
	case token.XOR:
		if isInteger(a.T) {
			return scalar(v.Type(), Sub(Neg(a.L[0]), IntLit(1)))
		}
	}
	x.eng.logAbs("%s: unary %s on %s havoced", x.short, v.Op, typeStr(a.T))
	return x.havocVal(st, v.Type(), "unop")
}

func (x *fnCtx) convert(st *State, fr *Frame, v *ssa.Convert, rederive bool) *Val {
	a := x.getVal(st, fr, v.X)
	from, to := a.T, v.Type()
	switch {
	case isInteger(from) && isInteger(to):
		flo, fhi, _ := intRange(from)
		tlo, thi, ok := intRange(to)
		if !ok {
			return scalar(to, a.L[0])
		}
		// widening or same: identity
		if bigLE(tlo, flo) && bigLE(fhi, thi) {
			return scalar(to, a.L[0])
		}
		if tlo == "0" {
			var m *Term
			switch thi {
			case "255":
				m = IntLit(256)
			case "65535":
				m = IntLit(65536)
			case "4294967295":
				m = IntLit(4294967296)
			case "18446744073709551615":
				m = BigLit("18446744073709551616")
			}
			return scalar(to, Mod(a.L[0], m))
		}
		// signed narrowing: value preserved when it fits, else unconstrained in range
		r := Fresh("narrow", SInt)
		fits := And(Le(BigLit(tlo), a.L[0]), Le(a.L[0], BigLit(thi)))
		st.assume(Implies(fits, Eq(r, a.L[0])))
		st.assume(And(Le(BigLit(tlo), r), Le(r, BigLit(thi))))
		return scalar(to, r)
	case isString(to) && isInteger(from):
		return scalar(to, SRune(a.L[0]))
	case isString(to) && isSlice(from):
		el := from.Underlying().(*types.Slice).Elem()
		if b, ok := el.Underlying().(*types.Basic); ok && b.Kind() == types.Uint8 {
			arr := x.elemArr(st, el, a.Arr(), 0)
			return scalar(to, SBytes(arr, a.Off(), a.Len()))
		}
		x.eng.logAbs("%s: string([]rune) havoced", x.short)
		return x.havocVal(st, to, "str")
	case isSlice(to) && isString(from):
		el := to.Underlying().(*types.Slice).Elem()
		if b, ok := el.Underlying().(*types.Basic); ok && b.Kind() == types.Uint8 {
			s := a.L[0]
			if rederive {
				return &Val{T: to, L: []*Term{Sym(fmt.Sprintf("%s.%s#arr", x.short, v.Name()), SInt), IntLit(0), SLen(s), SLen(s)}}
			}
			r := x.newRef(st, "bytes")
			x.setElemArr(st, el, r, 0, App("sarr", ArrSort(SInt, SInt), s))
			return &Val{T: to, L: []*Term{r, IntLit(0), SLen(s), SLen(s)}}
		}
		x.eng.logAbs("%s: []rune(string) havoced", x.short)
		return x.havocVal(st, to, "runes")
	case isString(to) && isString(from):
		return retype(a, to)
	case isPointer(to) || isPointer(from):
		return retype(a, to)
	}
	if len(layout(from)) == len(layout(to)) {
		if _, isF := from.Underlying().(*types.Basic); isF && !isInteger(from) || !isInteger(to) && func() bool { _, b := to.Underlying().(*types.Basic); return b }() {
			x.eng.logAbs("%s: numeric conversion %s -> %s havoced", x.short, typeStr(from), typeStr(to))
			return x.havocVal(st, to, "conv")
		}
		return retype(a, to)
	}
	x.eng.logAbs("%s: conversion %s -> %s havoced", x.short, typeStr(from), typeStr(to))
	return x.havocVal(st, to, "conv")
}

func bigLE(a, b string) bool {
	// compare decimal strings with optional leading '-'
	na, nb := strings.HasPrefix(a, "-"), strings.HasPrefix(b, "-")
	if na != nb {
		return na
	}
	aa, bb := strings.TrimPrefix(a, "-"), strings.TrimPrefix(b, "-")
	var less bool
	if len(aa) != len(bb) {
		less = len(aa) < len(bb)
	} else {
		less = aa <= bb
		if aa == bb {
			return true
		}
	}
	if na {
		return !less
	}
	return less
}

// ---------------- interfaces ----------------

func (x *fnCtx) makeInterface(st *State, v *Val, it types.Type) *Val {
	tag := IntLit(typeTag(v.T))
	ls := layout(v.T)
	var payload *Term
	switch {
	case len(ls) == 1 && ls[0].Sort == SInt:
		payload = v.L[0]
	case len(ls) == 1 && ls[0].Sort == SStr:
		payload = App("box.Str", SInt, v.L[0])
		st.assume(Eq(App("unbox.Str", SStr, payload), v.L[0]))
	case len(ls) == 1 && ls[0].Sort == SBool:
		payload = Ite(v.L[0], IntLit(1), IntLit(0))
	default:
		// box a multi-leaf value: allocate a box object holding the leaves
		r := x.newRef(st, "box")
		for i, l := range ls {
			name := "B:" + typeStr(v.T) + l.Suffix
			arr := x.heapArr(st, name, ArrSort(SInt, l.Sort))
			x.setHeap(st, name, Store(arr, r, v.L[i]))
		}
		payload = r
	}
	out := &Val{T: it, L: []*Term{tag, payload}}
	return out
}

func (x *fnCtx) unbox(st *State, iv *Val, t types.Type) *Val {
	ls := layout(t)
	switch {
	case len(ls) == 1 && ls[0].Sort == SInt:
		return &Val{T: t, L: []*Term{iv.IVal()}}
	case len(ls) == 1 && ls[0].Sort == SStr:
		return &Val{T: t, L: []*Term{App("unbox.Str", SStr, iv.IVal())}}
	case len(ls) == 1 && ls[0].Sort == SBool:
		return &Val{T: t, L: []*Term{Ne(iv.IVal(), IntLit(0))}}
	}
	out := &Val{T: t}
	for _, l := range ls {
		name := "B:" + typeStr(t) + l.Suffix
		arr := x.heapArr(st, name, ArrSort(SInt, l.Sort))
		out.L = append(out.L, Select(arr, iv.IVal()))
	}
	return out
}

// implementsTags returns the disjunction "tag is one of the known types implementing iface".
func (x *fnCtx) typeAssert(st *State, fr *Frame, v *ssa.TypeAssert) *Val {
	iv := x.getVal(st, fr, v.X)
	at := v.AssertedType
	if isIface(at) {
		// interface-to-interface assertion: succeeds iff dynamic type implements it (unknown) – non-nil required
		ok := Fresh("implements", SBool)
		st.assume(Implies(ok, Ne(iv.Tag(), IntLit(0))))
		res := retype(iv, at)
		if v.CommaOk {
			return &Val{T: v.Type(), Tup: []*Val{res, scalar(types.Typ[types.Bool], ok)}}
		}
		if x.eng.cfg.Layers["safety"] {
			x.addVC(st, x.curShort(fr), "typeassert", x.ord(fr, v), "", ok, "interface conversion", x.eng.posStr(v.Pos()))
		}
		x.assumeSafe(st, ok)
		return res
	}
	tag := IntLit(typeTag(at))
	ok := Eq(iv.Tag(), tag)
	res := x.unbox(st, iv, at)
	if v.CommaOk {
		// on failure the result is the zero value
		z := zeroVal(at)
		sel := &Val{T: at}
		for i := range res.L {
			sel.L = append(sel.L, Ite(ok, res.L[i], z.L[i]))
		}
		return &Val{T: v.Type(), Tup: []*Val{sel, scalar(types.Typ[types.Bool], ok)}}
	}
	if x.eng.cfg.Layers["safety"] {
		x.addVC(st, x.curShort(fr), "typeassert", x.ord(fr, v), "", ok, "type assertion to "+typeStr(at), x.eng.posStr(v.Pos()))
	}
	x.assumeSafe(st, ok)
	return res
}

// ---------------- maps ----------------

func mapSorts(mt *types.Map) (ks Sort, ok bool) {
	kl := layout(mt.Key())
	if isIface(mt.Key()) {
		return SInt, true // interface keys are encoded as ikey(tag, payload)
	}
	if len(kl) != 1 {
		return "", false
	}
	return kl[0].Sort, true
}

// mapKey encodes a key value as a single term of the map's key sort.
func mapKey(k *Val) *Term {
	if len(k.L) == 2 && isIface(k.T) {
		return App("ikey", SInt, k.L[0], k.L[1])
	}
	return k.L[0]
}

func mapHeapName(mt *types.Map) string {
	return "M:" + canonTypeStr(mt.Key()) + ":" + canonTypeStr(mt.Elem())
}

func (x *fnCtx) mapInit(st *State, m *Val) {
	mt := m.T.Underlying().(*types.Map)
	ks, ok := mapSorts(mt)
	if !ok {
		return
	}
	name := mapHeapName(mt)
	dom := x.heapArr(st, name+"#dom", ArrSort(SInt, ArrSort(ks, SBool)))
	x.setHeap(st, name+"#dom", Store(dom, m.L[0], ConstArray(ArrSort(ks, SBool), False)))
	lenArr := x.heapArr(st, "$maplen", ArrSort(SInt, SInt))
	x.setHeap(st, "$maplen", Store(lenArr, m.L[0], IntLit(0)))
}

func (x *fnCtx) mapDom(st *State, m *Val) *Term {
	mt := m.T.Underlying().(*types.Map)
	ks, _ := mapSorts(mt)
	dom := x.heapArr(st, mapHeapName(mt)+"#dom", ArrSort(SInt, ArrSort(ks, SBool)))
	return Select(dom, m.L[0])
}

func (x *fnCtx) mapGet(st *State, m *Val, key *Term) *Val {
	mt := m.T.Underlying().(*types.Map)
	ks, _ := mapSorts(mt)
	out := &Val{T: mt.Elem()}
	for _, l := range layout(mt.Elem()) {
		arr := x.heapArr(st, mapHeapName(mt)+"#val"+l.Suffix, ArrSort(SInt, ArrSort(ks, l.Sort)))
		out.L = append(out.L, Select(Select(arr, m.L[0]), key))
	}
	return out
}

func (x *fnCtx) lookup(st *State, fr *Frame, v *ssa.Lookup) *Val {
	m := x.getVal(st, fr, v.X)
	k := x.getVal(st, fr, v.Index)
	if isString(m.T) {
		s := m.L[0]
		idx := k.L[0]
		if x.eng.cfg.Layers["safety"] {
			x.addVC(st, x.curShort(fr), "index", x.ord(fr, v), "", And(Le(IntLit(0), idx), Lt(idx, SLen(s))), "string index in range", x.eng.posStr(v.Pos()))
		}
		x.assumeSafe(st, And(Le(IntLit(0), idx), Lt(idx, SLen(s))))
		return scalar(v.Type(), SAt(s, idx))
	}
	mt := m.T.Underlying().(*types.Map)
	if _, ok := mapSorts(mt); !ok {
		x.lockCheckMap(st, fr, v, m, false)
		x.eng.logAbs("%s: map with composite key havoced", x.short)
		return x.havocVal(st, v.Type(), "lookup")
	}
	k = x.coerce(k, mt.Key())
	x.lockCheckMap(st, fr, v, m, false)
	key := mapKey(k)
	present := And(Ne(m.L[0], IntLit(0)), Select(x.mapDom(st, m), key))
	val := x.mapGet(st, m, key)
	z := zeroVal(mt.Elem())
	res := &Val{T: mt.Elem()}
	for i := range val.L {
		res.L = append(res.L, Ite(present, val.L[i], z.L[i]))
	}
	for _, f := range rangeFacts(val) {
		st.assume(Implies(present, f))
	}
	x.assumeValAllocated(st, res)
	if v.CommaOk {
		return &Val{T: v.Type(), Tup: []*Val{res, scalar(types.Typ[types.Bool], present)}}
	}
	return res
}

func (x *fnCtx) mapUpdate(st *State, fr *Frame, v *ssa.MapUpdate) {
	m := x.getVal(st, fr, v.Map)
	k := x.getVal(st, fr, v.Key)
	val := x.getVal(st, fr, v.Value)
	mt := m.T.Underlying().(*types.Map)
	if x.eng.cfg.Layers["safety"] {
		x.addVC(st, x.curShort(fr), "nilmap", x.ord(fr, v), "", Ne(m.L[0], IntLit(0)), "assignment to entry in nil map", x.eng.posStr(v.Pos()))
	}
	x.assumeSafe(st, Ne(m.L[0], IntLit(0)))
	ks, ok := mapSorts(mt)
	x.lockCheckMap(st, fr, v, m, true)
	if !ok {
		x.eng.logAbs("%s: map with composite key: update ignored", x.short)
		return
	}
	x.mapStore(st, m, mapKey(x.coerce(k, mt.Key())), x.coerce(val, mt.Elem()))
	_ = ks
}

func (x *fnCtx) mapStore(st *State, m *Val, key *Term, val *Val) {
	st.markEscaped(val)
	mt := m.T.Underlying().(*types.Map)
	ks, _ := mapSorts(mt)
	name := mapHeapName(mt)
	dom := x.heapArr(st, name+"#dom", ArrSort(SInt, ArrSort(ks, SBool)))
	was := Select(Select(dom, m.L[0]), key)
	x.setHeap(st, name+"#dom", Store(dom, m.L[0], Store(Select(dom, m.L[0]), key, True)))
	for i, l := range layout(mt.Elem()) {
		hn := name + "#val" + l.Suffix
		arr := x.heapArr(st, hn, ArrSort(SInt, ArrSort(ks, l.Sort)))
		x.setHeap(st, hn, Store(arr, m.L[0], Store(Select(arr, m.L[0]), key, val.L[i])))
	}
	lenArr := x.heapArr(st, "$maplen", ArrSort(SInt, SInt))
	x.setHeap(st, "$maplen", Store(lenArr, m.L[0], Add(Select(lenArr, m.L[0]), Ite(was, IntLit(0), IntLit(1)))))
}

func (x *fnCtx) mapDelete(st *State, m *Val, key *Term) {
	mt := m.T.Underlying().(*types.Map)
	ks, ok := mapSorts(mt)
	if !ok {
		return
	}
	name := mapHeapName(mt)
	dom := x.heapArr(st, name+"#dom", ArrSort(SInt, ArrSort(ks, SBool)))
	was := Select(Select(dom, m.L[0]), key)
	x.setHeap(st, name+"#dom", Store(dom, m.L[0], Store(Select(dom, m.L[0]), key, False)))
	lenArr := x.heapArr(st, "$maplen", ArrSort(SInt, SInt))
	x.setHeap(st, "$maplen", Store(lenArr, m.L[0], Sub(Select(lenArr, m.L[0]), Ite(was, IntLit(1), IntLit(0)))))
}

// ---------------- range / next ----------------

type iterInfo struct {
	m       *Val
	visited string // ghost heap name of the visited set
	isStr   bool
}

var iterOf = map[*Term]*iterInfo{}

func (x *fnCtx) rangeInit(st *State, fr *Frame, v *ssa.Range) *Val {
	m := x.getVal(st, fr, v.X)
	id := Fresh("iter", SInt)
	info := &iterInfo{m: m}
	if isString(m.T) {
		info.isStr = true
	} else if mt, ok := m.T.Underlying().(*types.Map); ok {
		if ks, ok2 := mapSorts(mt); ok2 {
			info.visited = fmt.Sprintf("$visited.%s.%s", x.short, v.Name())
			heapSorts[info.visited] = ArrSort(ks, SBool)
			x.setHeap(st, info.visited, ConstArray(ArrSort(ks, SBool), False))
			x.setHeap(st, "$itercnt."+x.short, IntLit(0))
			heapSorts["$itercnt."+x.short] = SInt
		}
	}
	iterOf[id] = info
	return &Val{T: v.Type(), L: []*Term{id}}
}

func (x *fnCtx) rangeNext(st *State, fr *Frame, v *ssa.Next) *Val {
	tup := v.Type().(*types.Tuple)
	okv := Fresh("next.ok", SBool)
	res := &Val{T: v.Type(), Tup: []*Val{scalar(tup.At(0).Type(), okv)}}
	var info *iterInfo
	if rng, ok := v.Iter.(*ssa.Range); ok {
		// re-derive the iterator even when the path started at the loop header
		m := x.getVal(st, fr, rng.X)
		info = &iterInfo{m: m, isStr: isString(m.T)}
		if mt, ok := m.T.Underlying().(*types.Map); ok {
			if _, ok2 := mapSorts(mt); ok2 {
				info.visited = fmt.Sprintf("$visited.%s.%s", x.short, rng.Name())
			}
		}
	}
	if info == nil || info.isStr {
		x.eng.logAbs("%s: range over string havoced", x.short)
		res.Tup = append(res.Tup, x.havocVal(st, tup.At(1).Type(), "next.k"), x.havocVal(st, tup.At(2).Type(), "next.v"))
		return res
	}
	m := info.m
	mt := m.T.Underlying().(*types.Map)
	ks, ok := mapSorts(mt)
	if !ok {
		x.eng.logAbs("%s: range over map with composite key havoced", x.short)
		res.Tup = append(res.Tup, x.havocVal(st, tup.At(1).Type(), "next.k"), x.havocVal(st, tup.At(2).Type(), "next.v"))
		return res
	}
	x.lockCheckMap(st, fr, v, m, false)
	kv := freshVal(mt.Key(), "next.k", false)
	key := mapKey(kv)
	dom := x.mapDom(st, m)
	vis := x.heapArr(st, info.visited, ArrSort(ks, SBool))
	st.assume(Implies(okv, And(Ne(m.L[0], IntLit(0)), Select(dom, key), Not(Select(vis, key)))))
	// when exhausted every key of the domain has been visited
	bk := BVar("k", ks)
	allVisited := Forall([]*Term{bk}, Implies(Select(dom, bk), Select(vis, bk)), Select(dom, bk))
	st.assume(Implies(Not(okv), allVisited))
	x.setHeap(st, info.visited, Ite(okv, Store(vis, key, True), vis))
	// a range over an unmodified map yields exactly len(m) keys: the k-th success has k < len(m)
	cnt := x.heapArr(st, "$itercnt."+x.short, SInt)
	lenArr := x.heapArr(st, "$maplen", ArrSort(SInt, SInt))
	st.assume(Le(IntLit(0), cnt))
	st.assume(Implies(okv, Lt(cnt, Select(lenArr, m.L[0]))))
	st.assume(Implies(Not(okv), Eq(cnt, Select(lenArr, m.L[0]))))
	x.setHeap(st, "$itercnt."+x.short, Ite(okv, Add(cnt, IntLit(1)), cnt))
	for _, f := range rangeFacts(kv) {
		st.assume(f)
	}
	val := x.mapGet(st, m, key)
	for _, f := range rangeFacts(val) {
		st.assume(Implies(okv, f))
	}
	x.assumeValAllocated(st, val)
	kt, vt := tup.At(1).Type(), tup.At(2).Type()
	kOut, vOut := kv, val
	if isInvalid(kt) {
		kOut = &Val{T: kt, L: []*Term{IntLit(0)}}
	} else {
		kOut = retype(kv, kt)
	}
	if isInvalid(vt) {
		vOut = &Val{T: vt, L: []*Term{IntLit(0)}}
	} else {
		vOut = retype(val, vt)
	}
	res.Tup = append(res.Tup, kOut, vOut)
	return res
}

func isInvalid(t types.Type) bool {
	b, ok := t.(*types.Basic)
	return ok && b.Kind() == types.Invalid
}

func (x *fnCtx) selectOp(st *State, fr *Frame, v *ssa.Select) *Val {
	tup := v.Type().(*types.Tuple)
	idx := Fresh("select.idx", SInt)
	lo := int64(0)
	if !v.Blocking {
		lo = -1
	}
	st.assume(And(Le(IntLit(lo), idx), Lt(idx, IntLit(int64(len(v.States))))))
	res := &Val{T: v.Type(), Tup: []*Val{scalar(tup.At(0).Type(), idx), scalar(tup.At(1).Type(), Fresh("select.ok", SBool))}}
	for i := 2; i < tup.Len(); i++ {
		res.Tup = append(res.Tup, x.havocVal(st, tup.At(i).Type(), "select.recv"))
	}
	// a non-blocking select that takes the default branch found no receive ready: a channel
	// that is only ever closed (never sent on) is then not closed -- a fact that is stable only
	// while the lock guarding the channel's closed state is held (concurrent mode)
	if !v.Blocking {
		closed := x.heapArr(st, "$chanclosed", ArrSort(SInt, SBool))
		for _, s := range v.States {
			if s.Dir != types.RecvOnly {
				continue
			}
			ch := x.getVal(st, fr, s.Chan)
			fact := Implies(Eq(idx, IntLit(-1)), Not(Select(closed, ch.L[0])))
			if x.lockLayer() {
				if ch.Src == nil {
					continue
				}
				ts, g := x.chanGuardOf(ch.Src)
				if ts == nil || g == nil {
					continue
				}
				id := x.lockIDFor(ch.Src, g.Lock)
				fact = Implies(Ge(Select(lockArr(st.heap), id), IntLit(1)), fact)
			}
			st.assume(fact)
		}
		libUsed["channels used as done-signals are closed, never sent on (select default => not closed)"] = true
	}
	x.eng.logAbs("%s: select modelled as a nondeterministic choice", x.short)
	return res
}

// atStoreClauses: `at_store <var> requires <expr>`: every store through the pointer variable
// <var> (by its current binding) must satisfy expr over $new and $old.
func (x *fnCtx) atStoreClauses(st *State, fr *Frame, in *ssa.Store, p *Val, a *Addr, nv *Val) {
	if !fr.isTop || x.con == nil || !x.eng.cfg.Layers["contract"] {
		return
	}
	for _, cl := range x.con.ClausesOf("at_store") {
		if !cl.appliesTo(x.eng.prop) {
			continue
		}
		nb, ok := fr.names[cl.Arg]
		if !ok || nb.v != p {
			continue
		}
		names := map[string]nameBind{}
		for k, v := range fr.names {
			names[k] = v
		}
		names["$new"] = nameBind{v: nv}
		names["$old"] = nameBind{v: x.load(st, a)}
		env := &specEnv{x: x, st: st, heap: st.heap, old: fr.oldHeap, names: names, fr: fr}
		g := x.evalSpecBool(env, cl.Expr)
		x.addVC(st, x.short, "at_store", cl.Ord, fmt.Sprintf("%d", x.ord(fr, in)), g, fmt.Sprintf("store through %s: %s", cl.Arg, cl.Text), x.eng.posStr(in.Pos()))
	}
}

func allocOf(fr *Frame, v *Val) (*ssa.Alloc, bool) {
	for k, r := range fr.regs {
		if r == v {
			if al, ok := k.(*ssa.Alloc); ok {
				return al, true
			}
		}
	}
	return nil, false
}

// assumeSafe: after a safety obligation the checked condition is assumed (assert-then-assume).
// When the safety layer is off for this function nothing was asserted, so nothing is assumed:
// the path on which the instruction would panic stays visible to the other layers.
func (x *fnCtx) assumeSafe(st *State, c *Term) {
	if !x.eng.cfg.Layers["safety"] {
		return
	}
	if x.con != nil && x.con.OnlyLayers != nil && !x.con.OnlyLayers["safety"] {
		return
	}
	if x.con != nil && len(x.con.SkipKinds) > 0 {
		return // some safety kinds are skipped: do not cut their failing paths
	}
	st.assume(c)
}
