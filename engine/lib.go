package main

// Library models coded in the engine (assumed contracts of the standard library; listed
// in the evidence as trusted base). Everything else external comes from /verif/spec/*.spec
// or is havoced and logged.

import (
	"go/types"

	"golang.org/x/tools/go/ssa"
)

type libModel func(x *fnCtx, st *State, fr *Frame, in ssa.Instruction, args []*Val, rt types.Type) *Val

var libModels map[string]libModel

var libUsed = map[string]bool{}

func init() {
	libModels = map[string]libModel{
		"strings.HasSuffix": func(x *fnCtx, st *State, fr *Frame, in ssa.Instruction, args []*Val, rt types.Type) *Val {
			libUsed["strings.HasSuffix"] = true
			return scalar(rt, SHasSuffix(args[0].L[0], args[1].L[0]))
		},
		"strings.HasPrefix": func(x *fnCtx, st *State, fr *Frame, in ssa.Instruction, args []*Val, rt types.Type) *Val {
			libUsed["strings.HasPrefix"] = true
			return scalar(rt, SHasPrefix(args[0].L[0], args[1].L[0]))
		},
		"strings.Split": func(x *fnCtx, st *State, fr *Frame, in ssa.Instruction, args []*Val, rt types.Type) *Val {
			libUsed["strings.Split"] = true
			s, sep := args[0].L[0], args[1].L[0]
			r := x.newRef(st, "split")
			n := App("strings.Split#len", SInt, s, sep)
			st.assume(And(Le(IntLit(0), n), Le(n, Add(SLen(s), IntLit(1)))))
			st.assume(Implies(Ne(sep, StrLit("")), Le(IntLit(1), n)))
			el := rt.Underlying().(*types.Slice).Elem()
			arr := App("strings.Split#arr", ArrSort(SInt, SStr), s, sep)
			x.setElemArr(st, el, r, 0, arr)
			if lv, ok := litValue(sep); ok && lv == "/" {
				// A-SPLIT: no piece of a split at "/" contains a "/"
				bk := BVar("k", SInt)
				st.assume(Forall([]*Term{bk}, App("spec.NoSlash", SBool, Select(arr, bk)), Select(arr, bk)))
			}
			return &Val{T: rt, L: []*Term{r, IntLit(0), n, n}}
		},
		"strings.Join": func(x *fnCtx, st *State, fr *Frame, in ssa.Instruction, args []*Val, rt types.Type) *Val {
			libUsed["strings.Join"] = true
			sl := args[0]
			el := sl.T.Underlying().(*types.Slice).Elem()
			arr := x.elemArr(st, el, sl.Arr(), 0)
			res := App("strings.Join", SStr, arr, sl.Off(), sl.Len(), args[1].L[0])
			if lv, ok := litValue(args[1].L[0]); ok && lv == "/" {
				// A-LEX: joining segments none of which is ".." (and none containing "/") by "/"
				// gives a path without a ".." segment
				bk := BVar("k", SInt)
				seg := Select(arr, bk)
				ok1 := And(App("spec.NoSlash", SBool, seg), Ne(seg, StrLit("..")))
				ante := Forall([]*Term{bk}, Implies(And(Le(sl.Off(), bk), Lt(bk, Add(sl.Off(), sl.Len()))), ok1), Select(arr, bk))
				st.assume(Implies(ante, App("spec.NoDotDot", SBool, res)))
			}
			return scalar(rt, res)
		},
		"strings.Trim": func(x *fnCtx, st *State, fr *Frame, in ssa.Instruction, args []*Val, rt types.Type) *Val {
			libUsed["strings.Trim"] = true
			r := App("strings.Trim", SStr, args[0].L[0], args[1].L[0])
			st.assume(Le(SLen(r), SLen(args[0].L[0])))
			return scalar(rt, r)
		},
		"strings.NewReader": func(x *fnCtx, st *State, fr *Frame, in ssa.Instruction, args []*Val, rt types.Type) *Val {
			libUsed["strings.NewReader"] = true
			r := x.newRef(st, "strings.Reader")
			pos := x.heapArr(st, "$g.rpos", ArrSort(SInt, SInt))
			x.setHeap(st, "$g.rpos", Store(pos, r, IntLit(0)))
			st.assume(Eq(App("spec.rinput", ArrSort(SInt, SInt), r), App("sarr", ArrSort(SInt, SInt), args[0].L[0])))
			return &Val{T: rt, L: []*Term{r}}
		},
		"time.Now": func(x *fnCtx, st *State, fr *Frame, in ssa.Instruction, args []*Val, rt types.Type) *Val {
			return x.havocVal(st, rt, "time.Now")
		},
		"errors.New":  nonNilError("errors.New"),
		"fmt.Errorf":  nonNilError("fmt.Errorf"),
		"fmt.Sprintf": pureStr("fmt.Sprintf"),
		"fmt.Sprint":  pureStr("fmt.Sprint"),
		"fmt.Println": func(x *fnCtx, st *State, fr *Frame, in ssa.Instruction, args []*Val, rt types.Type) *Val {
			return x.havocVal(st, rt, "fmt.Println")
		},
		"fmt.Printf": func(x *fnCtx, st *State, fr *Frame, in ssa.Instruction, args []*Val, rt types.Type) *Val {
			return x.havocVal(st, rt, "fmt.Printf")
		},
		"sync.(*RWMutex).Lock":    lockModel("Lock"),
		"sync.(*RWMutex).Unlock":  lockModel("Unlock"),
		"sync.(*RWMutex).RLock":   lockModel("RLock"),
		"sync.(*RWMutex).RUnlock": lockModel("RUnlock"),
		"sync.(*Mutex).Lock":      lockModel("Lock"),
		"sync.(*Mutex).Unlock":    lockModel("Unlock"),
		"sync.(*WaitGroup).Add":   noop,
		"sync.(*WaitGroup).Done":  noop,
		"sync.(*WaitGroup).Wait":  noop,
		"sort.SliceStable":        sortSliceModel,
		"sort.Slice":              sortSliceModel,
		"io.ReadFull": func(x *fnCtx, st *State, fr *Frame, in ssa.Instruction, args []*Val, rt types.Type) *Val {
			libUsed["io.ReadFull"] = true
			buf := args[1]
			x.havocArgs(st, []*Val{buf})
			res := x.havocVal(st, rt, "io.ReadFull")
			n, err := res.Tup[0].L[0], res.Tup[1]
			st.assume(And(Le(IntLit(0), n), Le(n, buf.Len())))
			st.assume(Implies(Eq(err.Tag(), IntLit(0)), Eq(n, buf.Len())))
			st.assume(Implies(Ne(err.Tag(), IntLit(0)), Lt(n, buf.Len())))
			// A-RAND: a successful ReadFull from crypto/rand.Reader fills the buffer with fresh random bytes
			if g, ok := inCallArg(in, 0).(*ssa.UnOp); ok {
				if gl, ok2 := g.X.(*ssa.Global); ok2 && gl.Pkg.Pkg.Path() == "crypto/rand" && gl.Name() == "Reader" {
					st.assume(Implies(Eq(err.Tag(), IntLit(0)), App("spec.randFilled", SBool, buf.Arr(), buf.Off(), buf.Len())))
				}
			}
			return res
		},
	}
}

func noop(x *fnCtx, st *State, fr *Frame, in ssa.Instruction, args []*Val, rt types.Type) *Val {
	if rt != nil {
		return x.havocVal(st, rt, "noop")
	}
	return nil
}

func nonNilError(name string) libModel {
	return func(x *fnCtx, st *State, fr *Frame, in ssa.Instruction, args []*Val, rt types.Type) *Val {
		libUsed[name] = true
		res := x.havocVal(st, rt, name)
		st.assume(Ne(res.Tag(), IntLit(0)))
		return res
	}
}

func pureStr(name string) libModel {
	return func(x *fnCtx, st *State, fr *Frame, in ssa.Instruction, args []*Val, rt types.Type) *Val {
		libUsed[name] = true
		return x.havocVal(st, rt, name)
	}
}

func lockModel(op string) libModel {
	return func(x *fnCtx, st *State, fr *Frame, in ssa.Instruction, args []*Val, rt types.Type) *Val {
		libUsed["sync."+op] = true
		x.lockOp(st, fr, in, args[0], op)
		return nil
	}
}

// purePackages: external packages whose functions over scalar arguments are modelled as
// uninterpreted functions of their arguments (deterministic, no side effects).
var purePackages = map[string]bool{
	"strings": true, "path": true, "path/filepath": true, "strconv": true, "unicode": true,
	"unicode/utf8": true, "html": true, "bytes": true, "math": true, "net/url": true,
	"encoding/base64": true, "encoding/hex": true,
}

func scalarish(t types.Type) bool {
	switch u := t.Underlying().(type) {
	case *types.Basic:
		return true
	case *types.Tuple:
		for i := 0; i < u.Len(); i++ {
			if !scalarish(u.At(i).Type()) && !isIface(u.At(i).Type()) {
				return false
			}
		}
		return true
	}
	return false
}

func inCallArg(in ssa.Instruction, i int) ssa.Value {
	switch c := in.(type) {
	case *ssa.Call:
		if i < len(c.Call.Args) {
			return c.Call.Args[i]
		}
	}
	return nil
}

// A-SORT: sort.Slice / sort.SliceStable reorder the slice into a permutation that is ordered
// by the comparator. The comparator must be a closure under contract whose first `ensures`
// has the form `result == <expr over i, j>`; the expression is instantiated on the sorted slice.
func sortSliceModel(x *fnCtx, st *State, fr *Frame, in ssa.Instruction, args []*Val, rt types.Type) *Val {
	libUsed["sort.Slice/SliceStable (permutation ordered by the contracted comparator)"] = true
	call, ok := in.(*ssa.Call)
	if !ok {
		x.fail("sort.Slice outside a call instruction")
	}
	mi, ok := call.Call.Args[0].(*ssa.MakeInterface)
	if !ok {
		x.fail("sort.Slice on a non-literal interface value")
	}
	sl := x.getVal(st, fr, mi.X)
	el := sl.T.Underlying().(*types.Slice).Elem()
	less := args[1]
	if less.Fn == nil {
		x.fail("sort.Slice with unknown comparator")
	}
	pkg, key := funcKey(less.Fn.Fn)
	con := x.eng.db.Funcs[pkg+"."+key]
	var lessExpr *SExpr
	if con != nil {
		for _, cl := range con.ClausesOf("ensures") {
			if !cl.appliesTo(x.eng.prop) {
				continue
			}
			if cl.Expr.Kind == "bin" && cl.Expr.Op == "==" && cl.Expr.Args[0].Kind == "ident" && cl.Expr.Args[0].Op == "result" {
				lessExpr = cl.Expr.Args[1]
				break
			}
		}
		con.Used = true
	}
	n := sl.Len()
	lo := sl.Off()
	hi := Add(sl.Off(), n)
	// perm permutes the absolute index window [lo, hi)
	perm := Fresh("sort.perm", ArrSort(SInt, SInt))
	a := BVar("a", SInt)
	b := BVar("b", SInt)
	inR := func(v *Term) *Term { return And(Le(lo, v), Lt(v, hi)) }
	st.assume(Forall([]*Term{a}, Implies(inR(a), inR(Select(perm, a))), Select(perm, a)))
	st.assume(Forall([]*Term{a, b}, Implies(And(inR(a), inR(b), Eq(Select(perm, a), Select(perm, b))), Eq(a, b)), Select(perm, a), Select(perm, b)))
	var sortedArrs []*Term
	for li, l := range layout(el) {
		old := x.elemArr(st, el, sl.Arr(), li)
		nw := Fresh("sorted", ArrSort(SInt, l.Sort))
		k := BVar("k", SInt)
		st.assume(Forall([]*Term{k}, Eq(Select(nw, k), Ite(inR(k), Select(old, Select(perm, k)), Select(old, k))), Select(nw, k)))
		x.setElemArr(st, el, sl.Arr(), li, nw)
		sortedArrs = append(sortedArrs, nw)
	}
	if lessExpr == nil {
		x.eng.logAbs("%s: comparator %s has no `ensures result == ...` contract: order of the sorted slice unknown", x.short, key)
		return nil
	}
	// ordered: for a < b, not less(b, a), with the comparator's expression evaluated on the sorted slice
	names := map[string]nameBind{}
	for k2, v := range fr.names {
		names[k2] = v
	}
	pn := less.Fn.Fn.Params
	env := &specEnv{x: x, st: st, heap: st.heap, old: fr.oldHeap, names: names, fr: fr, bound: map[string]*Val{}}
	// absolute indices a2 < b2 in the window; the comparator sees relative indices
	a2 := BVar("a", SInt)
	b2 := BVar("b", SInt)
	env.bound[pn[0].Name()] = scalar(tInt, Sub(b2, lo))
	env.bound[pn[1].Name()] = scalar(tInt, Sub(a2, lo))
	lt := x.evalSpecBool(env, lessExpr)
	var pats []*Term
	if len(sortedArrs) > 0 {
		pats = []*Term{Select(sortedArrs[0], a2), Select(sortedArrs[0], b2)}
	}
	st.assume(Forall([]*Term{a2, b2}, Implies(And(Le(lo, a2), Lt(a2, b2), Lt(b2, hi)), Not(lt)), pats...))
	return nil
}
