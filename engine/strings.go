package main

// String theory: uninterpreted sort Str with slen/sat/scat/ssub/sbyte/srune/sbytes,
// rewrites at construction time and ground axiom instantiation at print time
// (no SMT Seq/String theory, no quantified string axioms in queries).

import (
	"fmt"
)

func StrLit(s string) *Term {
	if t, ok := TC.strLits[s]; ok {
		return t
	}
	idx := len(TC.litList)
	TC.litList = append(TC.litList, s)
	name := fmt.Sprintf("lit@%d", idx)
	t := Sym(name, SStr)
	TC.strLits[s] = t
	litOf[t] = s
	return t
}

var litOf = map[*Term]string{}

func litValue(t *Term) (string, bool) {
	s, ok := litOf[t]
	return s, ok
}

func SLen(s *Term) *Term {
	if v, ok := litValue(s); ok {
		return IntLit(int64(len(v)))
	}
	if s.Kind == KApp {
		switch s.Op {
		case "scat":
			return Add(SLen(s.Args[0]), SLen(s.Args[1]))
		case "sbyte":
			return IntLit(1)
		case "ssub":
			return Sub(s.Args[2], s.Args[1])
		case "sbytes":
			return s.Args[2]
		}
	}
	return TC.mk(KApp, declStr("slen", []Sort{SStr}, SInt), SInt, []*Term{s}, nil, nil)
}

func declStr(name string, args []Sort, ret Sort) string {
	DeclFun(name, args, ret)
	return name
}

// SCat is right-nested and merges adjacent literals so that equal concatenations
// are syntactically equal.
func SCat(a, b *Term) *Term {
	if v, ok := litValue(a); ok && v == "" {
		return b
	}
	if v, ok := litValue(b); ok && v == "" {
		return a
	}
	if va, ok := litValue(a); ok {
		if vb, ok2 := litValue(b); ok2 {
			return StrLit(va + vb)
		}
		// lit + (lit2 + rest)
		if b.Kind == KApp && b.Op == "scat" {
			if vb, ok2 := litValue(b.Args[0]); ok2 {
				return SCat(StrLit(va+vb), b.Args[1])
			}
		}
	}
	if a.Kind == KApp && a.Op == "scat" {
		// (x + y) + b  =>  x + (y + b)
		return SCat(a.Args[0], SCat(a.Args[1], b))
	}
	return TC.mk(KApp, declStr("scat", []Sort{SStr, SStr}, SStr), SStr, []*Term{a, b}, nil, nil)
}

// SByte is the one-byte string holding byte b.
func SByte(b *Term) *Term {
	if v, ok := b.IntVal(); ok && v >= 0 && v < 256 {
		return StrLit(string([]byte{byte(v)}))
	}
	return TC.mk(KApp, declStr("sbyte", []Sort{SInt}, SStr), SStr, []*Term{b}, nil, nil)
}

// SRune is the UTF-8 encoding of code point r (string(rune)).
func SRune(r *Term) *Term {
	if v, ok := r.IntVal(); ok {
		return StrLit(string(rune(v)))
	}
	return TC.mk(KApp, declStr("srune", []Sort{SInt}, SStr), SStr, []*Term{r}, nil, nil)
}

// SBytes is string(b[off:off+n]) for a byte-array snapshot.
func SBytes(arr *Term, off, n *Term) *Term {
	if v, ok := n.IntVal(); ok && v == 1 {
		return SByte(Select(arr, off))
	}
	if v, ok := n.IntVal(); ok && v == 0 {
		return StrLit("")
	}
	return TC.mk(KApp, declStr("sbytes", []Sort{ArrSort(SInt, SInt), SInt, SInt}, SStr), SStr, []*Term{arr, off, n}, nil, nil)
}

func SAt(s, i *Term) *Term {
	if v, ok := litValue(s); ok {
		if k, ok2 := i.IntVal(); ok2 && k >= 0 && int(k) < len(v) {
			return IntLit(int64(v[k]))
		}
	}
	if s.Kind == KApp && s.Op == "sbyte" {
		if k, ok := i.IntVal(); ok && k == 0 {
			return s.Args[0]
		}
	}
	return TC.mk(KApp, declStr("sat", []Sort{SStr, SInt}, SInt), SInt, []*Term{s, i}, nil, nil)
}

func SSub(s, lo, hi *Term) *Term {
	if l, ok := lo.IntVal(); ok && l == 0 && hi == SLen(s) {
		return s
	}
	if v, ok := litValue(s); ok {
		if l, ok1 := lo.IntVal(); ok1 {
			if h, ok2 := hi.IntVal(); ok2 && 0 <= l && l <= h && int(h) <= len(v) {
				return StrLit(v[l:h])
			}
		}
	}
	// prefix of a concatenation: (a+b)[0:len(a)] = a ; suffix (a+b)[len(a):] = b
	if s.Kind == KApp && s.Op == "scat" {
		la := SLen(s.Args[0])
		if l, ok := lo.IntVal(); ok && l == 0 && hi == la {
			return s.Args[0]
		}
		if lo == la && hi == SLen(s) {
			return s.Args[1]
		}
	}
	return TC.mk(KApp, declStr("ssub", []Sort{SStr, SInt, SInt}, SStr), SStr, []*Term{s, lo, hi}, nil, nil)
}

// SHasPrefix / SHasSuffix are uninterpreted predicates with instantiated consequences.
func SHasPrefix(s, p *Term) *Term {
	if vp, ok := litValue(p); ok && vp == "" {
		return True
	}
	if s == p {
		return True
	}
	if s.Kind == KApp && s.Op == "scat" && s.Args[0] == p {
		return True
	}
	return TC.mk(KApp, declStr("shasprefix", []Sort{SStr, SStr}, SBool), SBool, []*Term{s, p}, nil, nil)
}

func SHasSuffix(s, p *Term) *Term {
	if vp, ok := litValue(p); ok && vp == "" {
		return True
	}
	if s == p {
		return True
	}
	return TC.mk(KApp, declStr("shassuffix", []Sort{SStr, SStr}, SBool), SBool, []*Term{s, p}, nil, nil)
}

// theoryAxioms instantiates the string axioms for the string terms that occur in roots.
// It iterates because instances introduce new terms; depth-limited.
func theoryAxioms(roots []*Term) []*Term {
	var out []*Term
	done := map[*Term]bool{}
	emitted := map[*Term]bool{}
	emit := func(t *Term) {
		if t == True || emitted[t] {
			return
		}
		emitted[t] = true
		out = append(out, t)
	}
	work := append([]*Term{}, roots...)
	emptyLit := StrLit("")
	var sbytesTerms []*Term
	var ssubTerms, scatTerms []*Term
	pairDone := map[[2]*Term]bool{}
	pairAxioms := func() {
		for _, u := range ssubTerms {
			for _, c := range scatTerms {
				k := [2]*Term{u, c}
				if pairDone[k] || u.Args[0] == c {
					continue
				}
				pairDone[k] = true
				a, b := c.Args[0], c.Args[1]
				lo, hi := u.Args[1], u.Args[2]
				same := Eq(u.Args[0], c)
				emit(Implies(And(same, Eq(lo, IntLit(0)), Eq(hi, SLen(a))), Eq(u, a)))
				emit(Implies(And(same, Eq(lo, SLen(a)), Eq(hi, Add(SLen(a), SLen(b)))), Eq(u, b)))
			}
		}
	}
	for round := 0; round < 4 && len(work) > 0; round++ {
		var next []*Term
		before := len(out)
		var visit func(t *Term)
		visit = func(t *Term) {
			if done[t] {
				return
			}
			done[t] = true
			for _, a := range t.Args {
				visit(a)
			}
			if t.hasBV {
				return
			}
			if t.Sort == SStr {
				l := SLen(t)
				emit(Ge(l, IntLit(0)))
				// the folded length, stated for the solver's own slen terms (quantifier instances)
				raw := TC.mk(KApp, declStr("slen", []Sort{SStr}, SInt), SInt, []*Term{t}, nil, nil)
				if raw != l {
					emit(Eq(raw, l))
				}
				if _, isLit := litValue(t); !isLit {
					emit(Implies(Eq(l, IntLit(0)), Eq(t, emptyLit)))
				}
			}
			if v, ok := litValue(t); ok {
				// length is folded by SLen; characters for short literals
				if len(v) <= 48 {
					for i := 0; i < len(v); i++ {
						emit(Eq(TC.mk(KApp, declStr("sat", []Sort{SStr, SInt}, SInt), SInt, []*Term{t, IntLit(int64(i))}, nil, nil), IntLit(int64(v[i]))))
					}
				}
				emit(Eq(TC.mk(KApp, declStr("slen", []Sort{SStr}, SInt), SInt, []*Term{t}, nil, nil), IntLit(int64(len(v)))))
			}
			if t.Kind != KApp {
				return
			}
			switch t.Op {
			case "sat":
				s, i := t.Args[0], t.Args[1]
				emit(And(Le(IntLit(0), t), Le(t, IntLit(255))))
				if s.Kind == KApp {
					switch s.Op {
					case "scat":
						a, b := s.Args[0], s.Args[1]
						emit(Eq(t, Ite(Lt(i, SLen(a)), SAt(a, i), SAt(b, Sub(i, SLen(a))))))
					case "ssub":
						emit(Eq(t, SAt(s.Args[0], Add(i, s.Args[1]))))
					case "sbyte":
						emit(Implies(Eq(i, IntLit(0)), Eq(t, s.Args[0])))
					case "sbytes":
						emit(Eq(t, Select(s.Args[0], Add(s.Args[1], i))))
					}
				}
			case "ssub":
				ssubTerms = append(ssubTerms, t)
				s0, lo, hi := t.Args[0], t.Args[1], t.Args[2]
				if s0.Kind == KApp && s0.Op == "scat" {
					a, b := s0.Args[0], s0.Args[1]
					emit(Implies(And(Eq(lo, IntLit(0)), Eq(hi, SLen(a))), Eq(t, a)))
					emit(Implies(And(Eq(lo, SLen(a)), Eq(hi, Add(SLen(a), SLen(b)))), Eq(t, b)))
				}
				emit(Implies(And(Eq(lo, IntLit(0)), Eq(hi, SLen(s0))), Eq(t, s0)))
			case "sbytes":
				// sub-range relation between byte-string views of the same array state
				for _, o := range sbytesTerms {
					if o.Args[0] != t.Args[0] || o == t {
						continue
					}
					for _, pr := range [][2]*Term{{o, t}, {t, o}} {
						big, small := pr[0], pr[1]
						o1, n1, o2, n2 := big.Args[1], big.Args[2], small.Args[1], small.Args[2]
						emit(Implies(And(Le(o1, o2), Le(Add(o2, n2), Add(o1, n1)), Le(IntLit(0), n2)),
							Eq(small, SSub(big, Sub(o2, o1), Add(Sub(o2, o1), n2)))))
					}
				}
				sbytesTerms = append(sbytesTerms, t)
			case "sbyte":
				emit(Eq(SAt(t, IntLit(0)), t.Args[0]))
			case "srune":
				r := t.Args[0]
				l := SLen(t)
				emit(And(Le(IntLit(1), l), Le(l, IntLit(4))))
				emit(Implies(And(Le(IntLit(0), r), Lt(r, IntLit(128))), And(Eq(l, IntLit(1)), Eq(SAt(t, IntLit(0)), r), Eq(t, SByte(r)))))
				emit(Implies(And(Le(IntLit(128), r), Lt(r, IntLit(2048))), Eq(l, IntLit(2))))
				emit(Implies(Or(Lt(r, IntLit(0)), Ge(r, IntLit(2048))), Ge(l, IntLit(3))))
			case "scat":
				// first/last characters are commonly needed
				scatTerms = append(scatTerms, t)
				a, b := t.Args[0], t.Args[1]
				emit(Implies(Eq(a, emptyLit), Eq(t, b)))
				emit(Implies(Eq(b, emptyLit), Eq(t, a)))
				emit(Eq(TC.mk(KApp, declStr("slen", []Sort{SStr}, SInt), SInt, []*Term{t}, nil, nil), Add(SLen(a), SLen(b))))
			case "strlt":
				p, q := t.Args[0], t.Args[1]
				rev := TC.mk(KApp, declStr("strlt", []Sort{SStr, SStr}, SBool), SBool, []*Term{q, p}, nil, nil)
				emit(Not(And(t, rev)))
				emit(Implies(Eq(p, q), Not(t)))
				emit(Implies(Ne(p, q), Or(t, rev)))
			case "shasprefix":
				s, p := t.Args[0], t.Args[1]
				emit(Eq(t, And(Le(SLen(p), SLen(s)), Eq(SSub(s, IntLit(0), SLen(p)), p))))
				if v, ok := litValue(p); ok && len(v) <= 8 {
					var cs []*Term
					for i := 0; i < len(v); i++ {
						cs = append(cs, Eq(SAt(s, IntLit(int64(i))), IntLit(int64(v[i]))))
					}
					emit(Eq(t, And(append(cs, Le(IntLit(int64(len(v))), SLen(s)))...)))
				}
			case "shassuffix":
				s, p := t.Args[0], t.Args[1]
				emit(Implies(t, And(Le(SLen(p), SLen(s)), Eq(SSub(s, Sub(SLen(s), SLen(p)), SLen(s)), p))))
				if v, ok := litValue(p); ok && len(v) <= 8 {
					var cs []*Term
					for i := 0; i < len(v); i++ {
						cs = append(cs, Eq(SAt(s, Add(Sub(SLen(s), IntLit(int64(len(v)))), IntLit(int64(i)))), IntLit(int64(v[i]))))
					}
					emit(Eq(t, And(append(cs, Le(IntLit(int64(len(v))), SLen(s)))...)))
				}
			}
		}
		for _, r := range work {
			visit(r)
		}
		pairAxioms()
		next = append(next, out[before:]...)
		work = next
	}
	return out
}
