package main

import (
	"fmt"
	"go/token"
	"go/types"
	"regexp"
	"strconv"
	"strings"

	"golang.org/x/tools/go/ssa"
)

func (x *fnCtx) evalCallOperands(st *State, fr *Frame, c *ssa.CallCommon) (*Val, []*Val) {
	fnv := x.getVal(st, fr, c.Value)
	var args []*Val
	for _, a := range c.Args {
		args = append(args, x.getVal(st, fr, a))
	}
	return fnv, args
}

func calleeName(c *ssa.CallCommon) string {
	if c.IsInvoke() {
		return typeStrQ(c.Value.Type()) + "." + c.Method.Name()
	}
	switch f := c.Value.(type) {
	case *ssa.Function:
		pkg, key := funcKey(f)
		return pkg + "." + key
	case *ssa.Builtin:
		return "builtin." + f.Name()
	case *ssa.MakeClosure:
		pkg, key := funcKey(f.Fn.(*ssa.Function))
		return pkg + "." + key
	}
	// a function value read from a struct field is named after the field: dynamic.LoopData.OnDir
	var fa *ssa.FieldAddr
	switch v := c.Value.(type) {
	case *ssa.UnOp:
		if v.Op == token.MUL {
			fa, _ = v.X.(*ssa.FieldAddr)
		}
	case *ssa.Field:
		if st, ok := v.X.Type().Underlying().(*types.Struct); ok {
			if nt, ok := v.X.Type().(*types.Named); ok {
				return "dynamic." + nt.Obj().Name() + "." + st.Field(v.Field).Name()
			}
		}
	}
	if fa != nil {
		if pt, ok := fa.X.Type().Underlying().(*types.Pointer); ok {
			if st, ok := pt.Elem().Underlying().(*types.Struct); ok {
				if nt, ok := pt.Elem().(*types.Named); ok {
					return "dynamic." + nt.Obj().Name() + "." + st.Field(fa.Field).Name()
				}
			}
		}
	}
	return "dynamic." + c.Value.Name()
}

func typeStrQ(t types.Type) string {
	return types.TypeString(t, func(p *types.Package) string { return p.Path() })
}

// matchCallee: comma-separated alternatives; "!alt" excludes. An alternative is a full
// name, a bare function/method name, or "X.*" (every function of package X / method of type X).
func matchCallee(pattern, name string) bool {
	matched := false
	for _, alt := range strings.Split(pattern, ",") {
		alt = strings.TrimSpace(alt)
		if alt == "" {
			continue
		}
		neg := strings.HasPrefix(alt, "!")
		alt = strings.TrimPrefix(alt, "!")
		if matchOne(alt, name) {
			if neg {
				return false
			}
			matched = true
		}
	}
	return matched
}

func matchOne(pattern, name string) bool {
	if pattern == "*" || pattern == name {
		return true
	}
	if strings.HasSuffix(pattern, ".*") {
		p := strings.TrimSuffix(pattern, "*") // "X."
		return strings.HasPrefix(name, p) || strings.Contains(name, "/"+p) || strings.Contains(name, "."+p)
	}
	if strings.HasSuffix(name, "."+pattern) || strings.HasSuffix(name, "/"+pattern) {
		return true
	}
	return false
}

func (x *fnCtx) doCall(st *State, in ssa.Instruction, c *ssa.CallCommon, val ssa.Value, k func(*State, *Val)) {
	fr := st.top()
	fnv, args := x.evalCallOperands(st, fr, c)
	x.callValue(st, in, c, fnv, args, val, k)
}

// callValue performs a call with already evaluated operands (also used for defers).
func (x *fnCtx) callValue(st *State, in ssa.Instruction, c *ssa.CallCommon, fnv *Val, args []*Val, val ssa.Value, k func(*State, *Val)) {
	fr := st.top()
	if _, isBuiltin := c.Value.(*ssa.Builtin); !isBuiltin {
		for _, a := range args {
			st.markEscaped(a)
		}
	}
	name := calleeName(c)
	var rt types.Type
	sig := c.Signature()
	switch sig.Results().Len() {
	case 0:
		rt = nil
	case 1:
		rt = sig.Results().At(0).Type()
	default:
		rt = sig.Results()
	}
	// call-site clauses of the function under verification also bind the calls made by the
	// uncontracted helpers that are inlined into it
	if x.con != nil {
		x.callSiteClauses(st, fr, in, c, name, fnv, args)
	}
	record := func(st2 *State, res *Val) {
		if x.con != nil {
			x.recordTrace(st2, name, c, fnv, args, res)
		}
		k(st2, res)
	}
	if b, ok := c.Value.(*ssa.Builtin); ok && !c.IsInvoke() {
		res := x.builtin(st, fr, in, b, c, args, rt)
		if st.dead {
			return
		}
		record(st, res)
		return
	}
	if c.IsInvoke() {
		x.invoke(st, fr, in, c, name, fnv, args, rt, record)
		return
	}
	var callee *ssa.Function
	var bindings []*Val
	if fnv.Fn != nil {
		callee = fnv.Fn.Fn
		bindings = fnv.Fn.Bindings
	}
	if callee == nil {
		// a value of a named function type that has a declared contract (e.g. app.Factory)
		if named, ok := c.Value.Type().(*types.Named); ok && named.Obj().Pkg() != nil {
			if con := x.eng.db.FuncTypes[named.Obj().Pkg().Path()+"."+named.Obj().Name()]; con != nil {
				con.Used = true
				if con.ParamNames == nil {
					for i := 0; i < sig.Params().Len(); i++ {
						con.ParamNames = append(con.ParamNames, sig.Params().At(i).Name())
					}
				}
				res := x.applyContract(st, fr, in, con, sig, nil, args, rt, con.Key())
				if st.dead {
					return
				}
				record(st, res)
				return
			}
		}
		// call through a function value of unknown identity
		x.eng.logAbs("%s: call through unknown function value %s: heap havoced", x.short, c.Value.Name())
		if x.eng.cfg.Layers["safety"] {
			x.addVC(st, x.curShort(fr), "nil", x.ord(fr, in), "fn", Ne(fnv.L[0], IntLit(0)), "call of nil function value", x.eng.posStr(in.Pos()))
		}
		x.havocAllHeap(st, "unknown function value", append([]*Val{fnv}, args...)...)
		var res *Val
		if rt != nil {
			res = x.havocVal(st, rt, "dyn."+c.Value.Name())
		}
		record(st, res)
		return
	}
	x.callFunction(st, fr, in, callee, bindings, args, rt, record)
}

func (x *fnCtx) callFunction(st *State, fr *Frame, in ssa.Instruction, callee *ssa.Function, bindings, args []*Val, rt types.Type, k func(*State, *Val)) {
	pkg, key := funcKey(callee)
	full := pkg + "." + key
	// 1. library model coded in the engine
	if m, ok := libModels[full]; ok {
		res := m(x, st, fr, in, args, rt)
		if st.dead {
			return
		}
		k(st, res)
		return
	}
	// 2. contract
	if con, ok := x.eng.db.Funcs[full]; ok && !con.Inline {
		con.Used = true
		res := x.applyContract(st, fr, in, con, callee.Signature, callee, args, rt, full)
		if st.dead {
			return
		}
		k(st, res)
		return
	}
	// 3. in-repo function without contract: inline when loop-free and shallow
	if strings.HasPrefix(pkg, repoPrefix) && len(callee.Blocks) > 0 {
		if len(findLoopHeaders(callee)) == 0 && fr.depth < 4 && !x.onStack(st, callee) {
			x.inline(st, fr, callee, bindings, args, k)
			return
		}
		x.eng.logAbs("%s: callee %s has no contract and cannot be inlined: heap havoced", x.short, full)
		havocPkg = calleeTypesPkg(callee)
		x.havocAllHeap(st, "callee "+full, args...)
		havocPkg = nil
		var res *Val
		if rt != nil {
			res = x.havocVal(st, rt, shortPkg(pkg)+"."+key)
		}
		k(st, res)
		return
	}
	// 4a. pure standard-library function over scalars: an uninterpreted function of its arguments
	if purePackages[pkg] && rt != nil && scalarish(rt) {
		allScalar := true
		for _, a := range args {
			if a.Tup != nil || !scalarish(a.T) {
				allScalar = false
			}
		}
		if allScalar {
			libUsed[full+" (pure, uninterpreted)"] = true
			res := x.pureResult(full, rt, args)
			for _, f := range rangeFacts(res) {
				st.assume(f)
			}
			k(st, res)
			return
		}
	}
	// 4. external function without model: result unconstrained; memory reachable from
	// slice arguments is havoced, the rest of the repo heap is assumed untouched
	x.eng.logAbs("%s: external callee %s has no model: result havoced", x.short, full)
	x.havocArgs(st, args)
	var res *Val
	if rt != nil {
		res = x.havocVal(st, rt, shortPkg(pkg)+"."+key)
	}
	k(st, res)
}

func (x *fnCtx) onStack(st *State, fn *ssa.Function) bool {
	for _, f := range st.frames {
		if f.fn == fn {
			return true
		}
	}
	return false
}

func (x *fnCtx) havocArgs(st *State, args []*Val) {
	for _, a := range args {
		if a.Tup != nil {
			continue
		}
		if sl, ok := a.T.Underlying().(*types.Slice); ok {
			for li, l := range layout(sl.Elem()) {
				x.setElemArr(st, sl.Elem(), a.Arr(), li, Fresh("havoc.elems", ArrSort(SInt, l.Sort)))
			}
		}
	}
}

func (x *fnCtx) inline(st *State, fr *Frame, callee *ssa.Function, bindings, args []*Val, k func(*State, *Val)) {
	nf := &Frame{fn: callee, regs: map[ssa.Value]*Val{}, names: map[string]nameBind{}, depth: fr.depth + 1}
	for i, p := range callee.Params {
		if i < len(args) {
			nf.regs[p] = x.coerce(args[i], p.Type())
			nf.names[p.Name()] = nameBind{v: nf.regs[p]}
		}
	}
	for i, fv := range callee.FreeVars {
		if i < len(bindings) {
			nf.regs[fv] = bindings[i]
			nf.names[fv.Name()] = nameBind{v: bindings[i], isAddr: true}
		}
	}
	nres := callee.Signature.Results().Len()
	nf.cont = func(st2 *State, res []*Val) {
		st2.frames = st2.frames[:len(st2.frames)-1]
		var out *Val
		switch nres {
		case 0:
		case 1:
			out = res[0]
		default:
			out = &Val{T: callee.Signature.Results(), Tup: res}
		}
		k(st2, out)
	}
	st.frames = append(st.frames, nf)
	x.runBlock(st, callee.Blocks[0], nil, true)
}

// ---------------- return / panic / defers ----------------

func (x *fnCtx) doReturn(st *State, res []*Val) {
	fr := st.top()
	// adapt result static types
	results := fr.fn.Signature.Results()
	for i := range res {
		if i < results.Len() {
			res[i] = x.coerce(res[i], results.At(i).Type())
		}
	}
	if !fr.isTop {
		fr.cont(st, res)
		return
	}
	x.checkPost(st, fr, res)
}

func (x *fnCtx) runDefers(st *State, k func(*State)) {
	fr := st.top()
	if len(fr.defers) == 0 {
		k(st)
		return
	}
	d := fr.defers[len(fr.defers)-1]
	fr.defers = fr.defers[:len(fr.defers)-1]
	var in ssa.Instruction
	// find the Defer instruction for site naming
	for _, b := range fr.fn.Blocks {
		for _, i2 := range b.Instrs {
			if df, ok := i2.(*ssa.Defer); ok && &df.Call == d.call {
				in = df
			}
		}
	}
	x.callValue(st, in, d.call, d.fnv, d.args, nil, func(st2 *State, _ *Val) {
		x.runDefers(st2, k)
	})
}

func (x *fnCtx) doPanic(st *State, in ssa.Instruction, why string) {
	fr := st.top()
	if !fr.isTop {
		// a panic in an inlined callee propagates: run the callee's defers are ignored (logged), report at top
		x.eng.logAbs("%s: panic inside inlined %s propagates without running its defers", x.short, fr.fn.Name())
	}
	x.checkPanic(st, in, why)
}

func (x *fnCtx) doGo(st *State, fr *Frame, g *ssa.Go) {
	fnv, args := x.evalCallOperands(st, fr, &g.Call)
	name := calleeName(&g.Call)
	if x.con != nil {
		x.callSiteClauses(st, fr, g, &g.Call, name, fnv, args)
		x.recordTrace(st, "go:"+name, &g.Call, fnv, args, nil)
	}
	// the spawned function runs concurrently: nothing about shared memory is retained
	if x.eng.cfg.Mode == "conc" {
		x.havocAllHeap(st, "go statement")
	} else {
		x.eng.logAbs("%s: go statement: spawned function %s is verified separately (if under contract); sequential state kept", x.short, name)
	}
}

// ---------------- contracts at call sites ----------------

type specEnv struct {
	pkg   string // package path whose names unqualified types refer to (callee contracts)
	x     *fnCtx
	st    *State
	heap  *Heap // heap used for reads
	old   *Heap // heap for old(...)
	names map[string]nameBind
	bound map[string]*Val
	fr    *Frame
	// closed: references read from the current heap outside quantifiers are assumed to be nil or
	// allocated (the heap is closed under allocation, as for the loads of the program itself)
	closed bool
	// inQuant: evaluation is below a quantifier binder (bound also holds the parameters of defines)
	inQuant bool
}

func (x *fnCtx) applyContract(st *State, fr *Frame, in ssa.Instruction, con *Contract, sig *types.Signature, callee *ssa.Function, args []*Val, rt types.Type, full string) *Val {
	names := map[string]nameBind{}
	// bind parameter names
	pnames := con.ParamNames
	if callee != nil && len(callee.Params) > 0 && pnames == nil {
		for _, p := range callee.Params {
			pnames = append(pnames, p.Name())
		}
	}
	if pnames == nil {
		params := sig.Params()
		if sig.Recv() != nil {
			pnames = append(pnames, sig.Recv().Name())
		}
		for i := 0; i < params.Len(); i++ {
			pnames = append(pnames, params.At(i).Name())
		}
	}
	for i, a := range args {
		if i < len(pnames) && pnames[i] != "" {
			names[pnames[i]] = nameBind{v: a}
		}
		names[fmt.Sprintf("$%d", i)] = nameBind{v: a}
	}
	env := &specEnv{x: x, st: st, heap: st.heap, old: st.heap, names: names, fr: fr, pkg: con.Pkg, closed: true}
	short := x.curShort(fr)
	// preconditions are obligations of the caller
	for _, cl := range con.ClausesOf("requires") {
		if !cl.appliesTo(x.eng.prop) {
			continue
		}
		if !cl.appliesTo(x.eng.prop) {
			continue
		}
		g := x.evalSpecBool(env, cl.Expr)
		if x.eng.cfg.Layers["contract"] {
			x.addVC(st, short, "pre", x.ord(fr, in), fmt.Sprintf("%s.%d", con.Func, cl.Ord), g, fmt.Sprintf("precondition of %s: %s", con.Func, cl.Text), x.eng.posStr(in.Pos()))
		}
		st.assume(g)
	}
	x.applyLockClauses(st, fr, in, con, env, short)
	oldHeap := st.heap.snapshot()
	// frame
	if con.ModAll || (!con.HasMod && !con.Pure) {
		if !con.HasMod && !con.Pure {
			x.eng.logAbs("%s: contract of %s has no modifies clause: heap havoced at call", x.short, full)
		}
		if !con.KeepStable {
			havocPkg = calleeTypesPkg(callee)
		}
		havocExcept = con.KeepExcept
		x.havocAllHeap(st, "modifies * of "+full, args...)
		havocPkg, havocExcept = nil, nil
	} else {
		for _, m := range con.Modifies {
			x.havocMatching(st, m)
		}
	}
	// allocation set only grows across a call that may allocate
	if !con.Pure {
		x.growAlloc(st, con.Allocates, true)
		x.writes["$alloc"] = true
	}
	// result
	var res *Val
	if rt != nil {
		if con.Pure {
			res = x.pureResult(full, rt, args)
			for _, f := range rangeFacts(res) {
				st.assume(f)
			}
		} else {
			res = x.havocVal(st, rt, shortPkg(con.Pkg)+"."+con.Func)
		}
	}
	// bind result names
	rnames := con.ResultNames
	if rnames == nil && sig.Results() != nil {
		for i := 0; i < sig.Results().Len(); i++ {
			rnames = append(rnames, sig.Results().At(i).Name())
		}
	}
	// result names the contract may use although the callee's results lost their names
	if callee != nil {
		pk, ky := funcKey(callee)
		for old, sig := range x.eng.baseLocals[shortPkg(pk)+"."+ky] {
			var k int
			if strings.HasPrefix(sig, "result:") {
				if _, err := fmt.Sscanf(sig, "result:%d:", &k); err == nil {
					for len(rnames) <= k {
						rnames = append(rnames, "")
					}
					if rnames[k] == "" {
						rnames[k] = old
					}
				}
			}
		}
	}
	if res != nil {
		if res.Tup != nil {
			for i, r := range res.Tup {
				if i < len(rnames) && rnames[i] != "" {
					names[rnames[i]] = nameBind{v: r}
				}
				names[fmt.Sprintf("result%d", i)] = nameBind{v: r}
			}
		} else {
			if len(rnames) > 0 && rnames[0] != "" {
				names[rnames[0]] = nameBind{v: res}
			}
			names["result"] = nameBind{v: res}
			names["result0"] = nameBind{v: res}
		}
	}
	env2 := &specEnv{x: x, st: st, heap: st.heap, old: oldHeap, names: names, fr: fr, pkg: con.Pkg}
	calleeBinds := map[string]bool{}
	for _, td := range con.Traces {
		if td.As != "" {
			calleeBinds[td.As] = true
		}
	}
	for _, cl := range con.ClausesOf("ensures") {
		if !cl.appliesTo(x.eng.prop) {
			continue
		}
		// a postcondition over the callee's own ghost bindings (or loop variables) says nothing
		// the caller can use; it must never be evaluated against the caller's ghosts
		if sexprMentions(cl.Expr, calleeBinds) {
			x.eng.logAbs("%s: postcondition of %s not usable at the call site (%s)", x.short, con.Func, cl.Text)
			continue
		}
		func() {
			// an ensures that mentions the callee's own ghost bindings is not usable by callers
			defer func() {
				if r := recover(); r != nil {
					if ee, ok := r.(engineError); ok && strings.Contains(ee.msg, "unknown identifier") && mentionsBind(con, ee.msg) {
						x.eng.logAbs("%s: postcondition of %s not usable at the call site (%s)", x.short, con.Func, cl.Text)
						return
					}
					panic(r)
				}
			}()
			g := x.evalSpecBool(env2, cl.Expr)
			if g == False && !st.dead && x.eng.cfg.Layers["contract"] {
				// the postcondition contradicts what is known at the call site outright: either
				// the path was infeasible already (then this is discharged), or the contracts are
				// inconsistent and everything behind the call would silently vanish
				x.addVC(st, short, "callpost", x.ord(fr, in), fmt.Sprintf("%s.%d", con.Func, cl.Ord), False, fmt.Sprintf("postcondition of %s is consistent with the state at the call: %s", con.Func, cl.Text), x.eng.posStr(in.Pos()))
			}
			st.assume(g)
		}()
	}
	return res
}

// growAlloc replaces the allocation set by an unknown superset. The superset fact is stated
// over the base symbol of the current set (with the explicitly stored references listed), in
// both trigger directions, so that chains of calls instantiate.
func (x *fnCtx) growAlloc(st *State, allocates []string, typed bool) {
	old := x.heapArr(st, "$alloc", ArrSort(SInt, SBool))
	nw := Fresh("H.$alloc", ArrSort(SInt, SBool))
	base := old
	for base.Kind == KBuiltin && base.Op == "store" && len(base.Args) == 3 && base.Args[2] == True {
		st.assume(Select(nw, base.Args[1]))
		base = base.Args[0]
	}
	bk := BVar("r", SInt)
	st.assume(Forall([]*Term{bk}, Implies(Select(base, bk), Select(nw, bk)), Select(base, bk)))
	st.assume(Forall([]*Term{bk}, Implies(Select(base, bk), Select(nw, bk)), Select(nw, bk)))
	st.assume(Not(Select(nw, IntLit(0))))
	if typed && len(x.eng.tracked) > 0 {
		// objects created by the callee are of untracked types, or of the types it declares
		tags := x.eng.trackedTags(append([]string{}, allocates...))
		st.assume(Forall([]*Term{bk}, Implies(And(Select(nw, bk), Not(Select(old, bk))), typeAmong(bk, tags)), Select(typeHeap, bk)))
	}
	st.heap.m["$alloc"] = nw
}

// mentionsBind: the unknown identifier of msg is one of the callee's own trace bindings
func mentionsBind(con *Contract, msg string) bool {
	if strings.Contains(msg, "\"$") { // the callee's loop variables ($i, $v, $k)
		return true
	}
	for _, td := range con.Traces {
		if td.As != "" && strings.Contains(msg, strconv.Quote(td.As)) {
			return true
		}
	}
	return false
}

func (x *fnCtx) pureResult(full string, rt types.Type, args []*Val) *Val {
	var leaves []*Term
	for _, a := range args {
		if a.Tup != nil {
			continue
		}
		leaves = append(leaves, a.L...)
	}
	mk := func(t types.Type, hint string) *Val {
		v := &Val{T: t}
		for _, l := range layout(t) {
			v.L = append(v.L, App("fn."+full+hint+l.Suffix, l.Sort, leaves...))
		}
		return v
	}
	if tup, ok := rt.(*types.Tuple); ok {
		out := &Val{T: rt}
		for i := 0; i < tup.Len(); i++ {
			out.Tup = append(out.Tup, mk(tup.At(i).Type(), fmt.Sprintf("#%d", i)))
		}
		return out
	}
	return mk(rt, "")
}

// havocMatching havocs heap arrays whose name starts with the given prefix
// (e.g. "memfs.Dir.nodes" covers its #arr/#off/#len/#cap leaves; "E:" element heaps).
func (x *fnCtx) havocMatching(st *State, prefix string) {
	matched := false
	for name := range heapSorts {
		if name == prefix || strings.HasPrefix(name, prefix+"#") || strings.HasPrefix(name, prefix+".") || (strings.HasSuffix(prefix, ":") && strings.HasPrefix(name, prefix)) {
			x.havocHeap(st, name)
			matched = true
		}
	}
	if !matched {
		// not yet known: poison so that a later first access is fresh
		if st.heap.poison == nil {
			st.heap.poison = map[string]bool{}
		}
		st.heap.poison[prefix] = true
		x.writes[prefix] = true
	}
}

// callSiteClauses evaluates at_call and only_calls clauses of the function under verification.
func (x *fnCtx) callSiteClauses(st *State, fr *Frame, in ssa.Instruction, c *ssa.CallCommon, name string, fnv *Val, args []*Val) {
	contractLayer := x.eng.cfg.Layers["contract"]
	if !contractLayer && (!x.lockLayer() || len(x.con.ClausesOf("conc_at_call")) == 0) {
		return
	}
	site := x.ord(fr, in)
	// the clauses belong to the function under verification: inside an inlined helper its
	// names (parameters, locals, ghosts) are still the ones in scope
	inlined := !fr.isTop
	siteFn := ""
	if inlined {
		siteFn = fr.fn.Name() + ":"
	}
	if len(st.frames) > 0 {
		fr = st.frames[0]
	}
	siteClauses := append(append([]*Clause{}, x.con.ClausesOf("at_call")...), x.con.ClausesOf("conc_at_call")...)
	for _, cl := range siteClauses {
		if !cl.appliesTo(x.eng.prop) || !matchCallee(cl.Arg, name) {
			continue
		}
		// conc_at_call: the same clause form, generated as an obligation of the lock layer
		// (concurrent pass), for what must hold at the call under any interleaving
		vcKind, vcOrd := "at_call", cl.Ord
		if cl.Kind == "at_call" && !contractLayer {
			continue
		}
		if cl.Kind == "conc_at_call" {
			if !x.lockLayer() {
				continue
			}
			vcKind, vcOrd = "lockpost", 200+cl.Ord
		}
		x.hitAtCall(cl)
		if cl.Loop != 0 && fr.isTop {
			inLoop := func(n int) bool {
				return n >= 1 && n <= len(x.hdrList) && x.loopBlocks(x.hdrList[n-1])[in.Block()]
			}
			if cl.Loop > 0 && !inLoop(cl.Loop) {
				continue
			}
			if cl.Loop < 0 {
				any := false
				for n := 1; n <= len(x.hdrList); n++ {
					if inLoop(n) {
						any = true
					}
				}
				if any {
					continue
				}
			}
		}
		names := map[string]nameBind{}
		for k, v := range fr.names {
			names[k] = v
		}
		off := 0
		if c.IsInvoke() {
			names["$recv"] = nameBind{v: fnv}
		}
		names["$fn"] = nameBind{v: fnv}
		// own parameters by position ($p0 is the first non-receiver parameter)
		skip := 0
		if x.fn.Signature.Recv() != nil {
			skip = 1
		}
		for i := skip; i < len(fr.params); i++ {
			names[fmt.Sprintf("$p%d", i-skip)] = nameBind{v: fr.params[i]}
		}
		for i, a := range args {
			names[fmt.Sprintf("$%d", i-off)] = nameBind{v: a}
		}
		env := &specEnv{x: x, st: st, heap: st.heap, old: fr.oldHeap, names: names, fr: fr}
		if strings.Contains(cl.Text, "$iarg") {
			// "some interface-typed argument satisfies the clause" (robust to parameter order)
			var alts []*Term
			for _, a := range args {
				if a.Tup != nil || !isIface(a.T) {
					continue
				}
				names["$iarg"] = nameBind{v: a}
				alts = append(alts, x.evalSpecBool(env, cl.Expr))
			}
			x.addVC(st, x.short, vcKind, vcOrd, fmt.Sprintf("%s%d", siteFn, site), Or(alts...), fmt.Sprintf("at call of %s, some interface argument: %s", name, cl.Text), x.eng.posStr(in.Pos()))
			continue
		}
		if strings.Contains(cl.Text, "$arg") {
			// one obligation per string-typed argument
			for i, a := range args {
				if a.Tup != nil || !isString(a.T) {
					continue
				}
				names["$arg"] = nameBind{v: a}
				g := x.evalSpecBool(env, cl.Expr)
				x.addVC(st, x.short, vcKind, vcOrd, fmt.Sprintf("%s%d.arg%d", siteFn, site, i), g, fmt.Sprintf("at call of %s, string argument %d: %s", name, i, cl.Text), x.eng.posStr(in.Pos()))
			}
			continue
		}
		g := x.evalSpecBool(env, cl.Expr)
		x.addVC(st, x.short, vcKind, vcOrd, fmt.Sprintf("%s%d", siteFn, site), g, fmt.Sprintf("at call of %s: %s", name, cl.Text), x.eng.posStr(in.Pos()))
	}
	for _, cl := range x.con.ClausesOf("only_calls") {
		if !cl.appliesTo(x.eng.prop) || !contractLayer {
			continue
		}
		names := map[string]nameBind{}
		for k, v := range fr.names {
			names[k] = v
		}
		env := &specEnv{x: x, st: st, heap: st.heap, old: fr.oldHeap, names: names, fr: fr}
		target := x.evalSpec(env, cl.Expr)
		unless := False
		if cl.Cond != nil {
			unless = x.evalSpecBool(env, cl.Cond)
		}
		allowed := map[string]bool{}
		for _, m := range strings.Fields(cl.Arg) {
			allowed[m] = true
		}
		same := func(v *Val) *Term {
			if v == nil || v.Tup != nil || len(v.L) != len(target.L) {
				return False
			}
			if isIface(v.T) && isIface(target.T) {
				// values of another static interface type (a stream handle vs a filespace) are
				// other objects
				if !types.Identical(v.T, target.T) {
					return False
				}
				return And(Eq(v.L[0], target.L[0]), Eq(v.L[1], target.L[1]), Ne(v.L[0], IntLit(0)), Not(unless))
			}
			return False
		}
		if c.IsInvoke() {
			if !allowed[c.Method.Name()] {
				x.addVC(st, x.short, "only_calls", cl.Ord, fmt.Sprintf("%s%d", siteFn, site), Not(same(fnv)), fmt.Sprintf("method %s may not be called on %s", c.Method.Name(), cl.Expr.String()), x.eng.posStr(in.Pos()))
			}
			// arguments of an invoke escape to an unknown implementation
			for _, a := range args {
				if s := same(a); s != False {
					x.addVC(st, x.short, "only_calls", cl.Ord, fmt.Sprintf("%s%d.esc", siteFn, site), Not(s), fmt.Sprintf("%s escapes as argument of %s", cl.Expr.String(), name), x.eng.posStr(in.Pos()))
				}
			}
			continue
		}
		// static call: the callee must declare a role for the parameter that is at most as permissive
		var calleeCon *Contract
		if fnv != nil && fnv.Fn != nil {
			pkg, key := funcKey(fnv.Fn.Fn)
			calleeCon = x.eng.db.Funcs[pkg+"."+key]
		}
		for i, a := range args {
			// a struct passed by value carries the target in one of its interface fields: the
			// callee must declare a role for <param>.<field>
			if stt, isStruct := transparentStruct(a.T); isStruct && a.Tup == nil {
				off := 0
				for fi := 0; fi < stt.NumFields(); fi++ {
					n := len(layout(stt.Field(fi).Type()))
					if off+n > len(a.L) {
						break
					}
					fv := &Val{T: stt.Field(fi).Type(), L: a.L[off : off+n]}
					off += n
					sf := same(fv)
					if sf == False {
						continue
					}
					ok := false
					if calleeCon != nil && fnv.Fn != nil && i < len(fnv.Fn.Fn.Params) {
						pname := fnv.Fn.Fn.Params[i].Name()
						for _, ccl := range calleeCon.ClausesOf("only_calls") {
							if ccl.Expr.Kind == "field" && ccl.Expr.Op == stt.Field(fi).Name() && ccl.Expr.Args[0].Kind == "ident" && ccl.Expr.Args[0].Op == pname {
								sub := true
								if ccl.Cond != nil && !x.calleeUnlessExcluded(st, fr, in, cl, ccl, fnv, args, sf, site, fmt.Sprintf("arg%d.%s", i, stt.Field(fi).Name())) {
									sub = false
								}
								for _, m := range strings.Fields(ccl.Arg) {
									if !allowed[m] {
										sub = false
									}
								}
								if sub {
									ok = true
								}
							}
						}
					}
					if !ok {
						x.addVC(st, x.short, "only_calls", cl.Ord, fmt.Sprintf("%s%d.arg%d.%s", siteFn, site, i, stt.Field(fi).Name()), Not(sf), fmt.Sprintf("%s passed in field %s to %s which declares no matching role", cl.Expr.String(), stt.Field(fi).Name(), name), x.eng.posStr(in.Pos()))
					}
				}
				continue
			}
			s := same(a)
			if s == False {
				continue
			}
			ok := false
			if calleeCon != nil && fnv.Fn != nil && i < len(fnv.Fn.Fn.Params) {
				pname := fnv.Fn.Fn.Params[i].Name()
				for _, ccl := range calleeCon.ClausesOf("only_calls") {
					if ccl.Expr.Kind == "ident" && ccl.Expr.Op == pname {
						sub := true
						if ccl.Cond != nil && !x.calleeUnlessExcluded(st, fr, in, cl, ccl, fnv, args, s, site, fmt.Sprintf("arg%d", i)) {
							sub = false
						}
						for _, m := range strings.Fields(ccl.Arg) {
							if !allowed[m] {
								sub = false
							}
						}
						if sub {
							ok = true
						}
					}
				}
			}
			if !ok {
				x.addVC(st, x.short, "only_calls", cl.Ord, fmt.Sprintf("%s%d.arg%d", siteFn, site, i), Not(s), fmt.Sprintf("%s passed to %s which declares no matching role", cl.Expr.String(), name), x.eng.posStr(in.Pos()))
			}
		}
		// closures capturing the target
		if fnv != nil && fnv.Fn != nil {
			for _, b := range fnv.Fn.Bindings {
				_ = b
			}
		}
	}
}

// ---------------- traces ----------------

func (x *fnCtx) recordTrace(st *State, name string, c *ssa.CallCommon, fnv *Val, args []*Val, res *Val) {
	recorded := false
	for _, td := range x.con.Traces {
		if len(td.Props) > 0 {
			found := false
			for _, p := range td.Props {
				if p == x.eng.prop {
					found = true
				}
			}
			if !found {
				continue
			}
		}
		pat := td.Pattern
		if strings.HasPrefix(pat, "go:") != strings.HasPrefix(name, "go:") {
			continue
		}
		if !matchCallee(strings.TrimPrefix(pat, "go:"), strings.TrimPrefix(name, "go:")) {
			continue
		}
		ev := td.Event
		// substitute $k by constant argument values when literal
		// $k.Field[.Sub]: a literal field of a struct-valued argument
		for i, a := range args {
			ph := fmt.Sprintf("$%d.", i)
			for strings.Contains(ev, ph) {
				k := strings.Index(ev, ph)
				j := k + len(ph)
				for j < len(ev) && (ev[j] == '.' || ev[j] == '_' || ev[j] >= 'a' && ev[j] <= 'z' || ev[j] >= 'A' && ev[j] <= 'Z' || ev[j] >= '0' && ev[j] <= '9') {
					j++
				}
				path := ev[k+len(ph) : j]
				val := "?"
				if a.Tup == nil {
					for li, l := range layout(a.T) {
						if l.Suffix == "."+path && li < len(a.L) {
							if lit, ok := litValue(a.L[li]); ok {
								val = lit
							} else if a.L[li].IsLit() {
								val = a.L[li].Op
							}
						}
					}
				}
				ev = ev[:k] + val + ev[j:]
			}
		}
		for i, a := range args {
			ph := fmt.Sprintf("$%d", i)
			if strings.Contains(ev, ph) {
				s := "?"
				if a.Tup == nil && len(a.L) == 1 {
					if lit, ok := litValue(a.L[0]); ok {
						s = lit
					} else if a.L[0].IsLit() {
						s = a.L[0].Op
					}
				} else if a.Tup == nil && len(a.L) == 2 && isIface(a.T) && a.L[1].IsLit() {
					s = a.L[1].Op // boxed constant
				}
				ev = strings.ReplaceAll(ev, ph, s)
			}
		}
		if !recorded {
			// one event per call (named by the first matching declaration); conditional binds of
			// further matching declarations are still evaluated
			st.trace = append(st.trace, Event{Name: ev, Args: args, Res: res})
			recorded = true
		} else if td.When == nil {
			return
		}
		if td.As != "" && res != nil && td.When != nil {
			// conditional bind: the new value when the condition holds, the previous one otherwise
			names := map[string]nameBind{}
			if len(st.frames) > 0 {
				for k, v := range st.frames[0].names {
					names[k] = v
				}
			}
			for k, v := range st.ghost {
				if !strings.HasPrefix(k, "$") {
					names[k] = nameBind{v: v}
				}
			}
			for i, a := range args {
				names[fmt.Sprintf("$%d", i)] = nameBind{v: a}
			}
			if c != nil && c.IsInvoke() && fnv != nil {
				names["$recv"] = nameBind{v: fnv}
			}
			var fr0 *Frame
			if len(st.frames) > 0 {
				fr0 = st.frames[0]
			}
			env := &specEnv{x: x, st: st, heap: st.heap, old: st.heap, names: names, fr: fr0}
			cond, ok := x.tryEval(env, td.When)
			if !ok {
				x.fail("trace %s: cannot evaluate the bind condition", td.Pattern)
			}
			old, had := st.ghost[td.As]
			if !had {
				old = zeroVal(res.T)
			}
			st.ghost[td.As] = iteVal(cond, res, old)
			prevB := False
			if b, ok := st.ghost["$bound."+td.As]; ok {
				prevB = b.L[0]
			}
			st.ghost["$bound."+td.As] = scalar(tBool, Or(prevB, cond))
			continue
		}
		if td.As != "" && res != nil {
			st.ghost["$bound."+td.As] = scalar(tBool, True)
			if x.bindOutsideLoops(td) {
				// a binding made outside every loop is one value for the whole call: name it by a
				// stable symbol so that paths starting at a loop header can refer to it
				sym := x.stableGhost(td, res)
				st.assume(tupleEq(res, sym))
				st.ghost[td.As] = sym
			} else {
				st.ghost[td.As] = res
			}
		}
		return
	}
}

func traceString(tr []Event) string {
	var sb strings.Builder
	for _, e := range tr {
		sb.WriteString(e.Name)
		sb.WriteByte(' ')
	}
	return sb.String()
}

var reCache = map[string]*regexp.Regexp{}

func traceMatches(pattern string, tr []Event) (bool, error) {
	re, ok := reCache[pattern]
	if !ok {
		var err error
		re, err = regexp.Compile(pattern)
		if err != nil {
			return false, err
		}
		reCache[pattern] = re
	}
	return re.MatchString(traceString(tr)), nil
}

func tupleEq(a, b *Val) *Term {
	if a.Tup != nil {
		var cs []*Term
		for i := range a.Tup {
			cs = append(cs, tupleEq(a.Tup[i], b.Tup[i]))
		}
		return And(cs...)
	}
	return valEq(a, b)
}

func (x *fnCtx) stableGhost(td *TraceDecl, like *Val) *Val {
	return freshVal(like.T, "ghost."+x.short+"."+td.As, true)
}

// bindOutsideLoops: every call site matched by the declaration lies outside all loops, and
// there is exactly one such site.
func (x *fnCtx) bindOutsideLoops(td *TraceDecl) bool {
	if v, ok := x.bindOutside[td]; ok {
		return v
	}
	if x.bindOutside == nil {
		x.bindOutside = map[*TraceDecl]bool{}
	}
	n := 0
	okAll := true
	for _, b := range x.fn.Blocks {
		for _, in := range b.Instrs {
			var c *ssa.CallCommon
			switch v := in.(type) {
			case *ssa.Call:
				c = &v.Call
			case *ssa.Defer:
				c = &v.Call
			}
			if c == nil || !matchCallee(td.Pattern, calleeName(c)) {
				continue
			}
			n++
			for _, h := range x.hdrList {
				if x.loopBlocks(h)[b] {
					okAll = false
				}
			}
		}
	}
	res := okAll && n == 1
	x.bindOutside[td] = res
	return res
}

func iteVal(c *Term, a, b *Val) *Val {
	if a.Tup != nil {
		out := &Val{T: a.T}
		for i := range a.Tup {
			out.Tup = append(out.Tup, iteVal(c, a.Tup[i], b.Tup[i]))
		}
		return out
	}
	out := &Val{T: a.T}
	for i := range a.L {
		out.L = append(out.L, Ite(c, a.L[i], b.L[i]))
	}
	return out
}

// calleeUnlessExcluded: the callee's role for the parameter holds unless its condition; the
// caller must show that the condition is false whenever it passes the protected object.
func (x *fnCtx) calleeUnlessExcluded(st *State, fr *Frame, in ssa.Instruction, cl, ccl *Clause, fnv *Val, args []*Val, same *Term, site int, what string) bool {
	names := map[string]nameBind{}
	for i, p := range fnv.Fn.Fn.Params {
		if i < len(args) {
			names[p.Name()] = nameBind{v: args[i]}
		}
	}
	pkg, _ := funcKey(fnv.Fn.Fn)
	env := &specEnv{x: x, st: st, heap: st.heap, old: st.heap, names: names, fr: fr, pkg: pkg}
	u, ok := x.tryEval(env, ccl.Cond)
	if !ok {
		return false
	}
	x.addVC(st, x.short, "only_calls", cl.Ord, fmt.Sprintf("%d.%s.unless", site, what), Implies(same, Not(u)), fmt.Sprintf("%s is passed only when the callee's role applies (not %s)", cl.Expr.String(), ccl.Cond.String()), x.eng.posStr(in.Pos()))
	return true
}

// sexprMentions: the expression mentions one of the names (as an identifier, also inside
// bound(...)) or a loop variable ($i, $v, $k).
func sexprMentions(e *SExpr, names map[string]bool) bool {
	if e == nil {
		return false
	}
	if e.Kind == "ident" && (names[e.Op] || e.Op == "$i" || e.Op == "$v" || e.Op == "$k") {
		return true
	}
	for _, a := range e.Args {
		if sexprMentions(a, names) {
			return true
		}
	}
	return false
}

func calleeTypesPkg(callee *ssa.Function) *types.Package {
	if callee == nil {
		return nil
	}
	if callee.Pkg != nil {
		return callee.Pkg.Pkg
	}
	if p := callee.Parent(); p != nil {
		return calleeTypesPkg(p)
	}
	if o := callee.Object(); o != nil {
		return o.Pkg()
	}
	return nil
}

// sendName: a send is named after the struct field that holds the channel
// (chan.send.Chans.dirChan), or plain chan.send.
func sendName(ch ssa.Value) string {
	if u, ok := ch.(*ssa.UnOp); ok && u.Op == token.MUL {
		if fa, ok := u.X.(*ssa.FieldAddr); ok {
			if pt, ok := fa.X.Type().Underlying().(*types.Pointer); ok {
				if st, ok := pt.Elem().Underlying().(*types.Struct); ok {
					if nt, ok := pt.Elem().(*types.Named); ok {
						return "chan.send." + nt.Obj().Name() + "." + st.Field(fa.Field).Name()
					}
				}
			}
		}
	}
	return "chan.send"
}

// sendEvent: a channel send is an event of the ghost trace ($0 the channel, $1 the value) and
// a site for `at_call chan.send... requires` clauses of the function under verification.
func (x *fnCtx) sendEvent(st *State, fr *Frame, in *ssa.Send, ch, val *Val) {
	if x.con == nil {
		return
	}
	name := sendName(in.Chan)
	args := []*Val{ch, val}
	top := fr
	if len(st.frames) > 0 {
		top = st.frames[0]
	}
	if x.eng.cfg.Layers["contract"] {
		for _, cl := range x.con.ClausesOf("at_call") {
			if !cl.appliesTo(x.eng.prop) || !matchCallee(cl.Arg, name) {
				continue
			}
			x.hitAtCall(cl)
			names := map[string]nameBind{}
			for k, v := range top.names {
				names[k] = v
			}
			names["$0"] = nameBind{v: ch}
			names["$1"] = nameBind{v: val}
			env := &specEnv{x: x, st: st, heap: st.heap, old: top.oldHeap, names: names, fr: top}
			g := x.evalSpecBool(env, cl.Expr)
			x.addVC(st, x.short, "at_call", cl.Ord, fmt.Sprintf("%d", x.ord(fr, in)), g, fmt.Sprintf("at %s: %s", name, cl.Text), x.eng.posStr(in.Pos()))
		}
	}
	x.recordTrace(st, name, nil, nil, args, nil)
}

func (x *fnCtx) hitAtCall(cl *Clause) {
	if x.atCallHit == nil {
		x.atCallHit = map[*Clause]bool{}
	}
	x.atCallHit[cl] = true
}
