package main

// Portfolio discharge: z3-new, z3 (4.8.12) and cvc5 raced per query; first definitive answer wins.

import (
	"bytes"
	"context"
	"fmt"
	"os"
	"os/exec"
	"path/filepath"
	"strings"
	"sync"
	"time"
)

type SolverResult struct {
	Status string // unsat | sat | unknown | timeout | error
	Solver string
	Ms     int64
	Output string
	All    map[string]string // per solver status (thorough tier)
}

type solverSpec struct {
	name string
	args func(file string, timeoutS int) []string
}

var solvers = []solverSpec{
	{"z3-new", func(f string, t int) []string { return []string{"z3-new", fmt.Sprintf("-T:%d", t), f} }},
	{"z3", func(f string, t int) []string { return []string{"/usr/bin/z3", fmt.Sprintf("-T:%d", t), f} }},
	{"cvc5", func(f string, t int) []string {
		return []string{"cvc5", fmt.Sprintf("--tlimit=%d", t*1000), "--produce-models", f}
	}},
}

var solverAvail = map[string]bool{}

func init() {
	for _, s := range solvers {
		bin := s.args("x", 1)[0]
		if _, err := exec.LookPath(bin); err == nil {
			solverAvail[s.name] = true
		}
	}
}

func runOne(ctx context.Context, s solverSpec, file string, timeoutS int) (status, output string, ms int64) {
	argv := s.args(file, timeoutS)
	start := time.Now()
	cctx, cancel := context.WithTimeout(ctx, time.Duration(timeoutS+2)*time.Second)
	defer cancel()
	cmd := exec.CommandContext(cctx, argv[0], argv[1:]...)
	var out bytes.Buffer
	cmd.Stdout = &out
	cmd.Stderr = &out
	_ = cmd.Run()
	ms = time.Since(start).Milliseconds()
	output = out.String()
	first := ""
	for _, ln := range strings.Split(output, "\n") {
		ln = strings.TrimSpace(ln)
		if ln == "" || strings.HasPrefix(ln, "WARNING") || strings.HasPrefix(ln, "(warning") {
			continue
		}
		first = ln
		break
	}
	switch first {
	case "unsat", "sat", "unknown":
		status = first
	case "timeout":
		status = "timeout"
	default:
		if cctx.Err() != nil {
			status = "timeout"
		} else if ctx.Err() != nil {
			status = "cancelled"
		} else {
			status = "error"
		}
	}
	return
}

// Solve races the solvers on a query file. If all is true every solver runs to completion
// (cross-check); a sat/unsat disagreement is reported as status "disagree".
func Solve(file string, timeoutS int, all bool, seed int) SolverResult {
	ctx, cancel := context.WithCancel(context.Background())
	defer cancel()
	type r struct {
		name, status, out string
		ms                int64
	}
	ch := make(chan r, len(solvers))
	n := 0
	order := solvers
	if seed != 0 {
		k := seed % len(solvers)
		order = append(append([]solverSpec{}, solvers[k:]...), solvers[:k]...)
	}
	for _, s := range order {
		if !solverAvail[s.name] {
			continue
		}
		n++
		go func(s solverSpec) {
			st, out, ms := runOne(ctx, s, file, timeoutS)
			ch <- r{s.name, st, out, ms}
		}(s)
	}
	res := SolverResult{Status: "unknown", All: map[string]string{}}
	for i := 0; i < n; i++ {
		x := <-ch
		res.All[x.name] = x.status
		definitive := x.status == "unsat" || x.status == "sat"
		if definitive && (res.Status != "unsat" && res.Status != "sat") {
			res.Status, res.Solver, res.Ms, res.Output = x.status, x.name, x.ms, x.out
			if !all {
				cancel()
				return res
			}
		} else if definitive && x.status != res.Status {
			res.Status = "disagree"
			res.Output += "\n--- " + x.name + ": " + x.status
		}
		if !definitive && res.Solver == "" {
			if x.status == "timeout" && res.Status == "unknown" {
				res.Status = "timeout"
			}
			res.Ms = x.ms
			res.Output = x.out
		}
	}
	return res
}

// parallel job runner
type job struct {
	ob  *Obligation
	vci int
}

func dischargeAll(obls []*Obligation, workDir string, timeoutS int, all bool, seed int, par int) {
	os.MkdirAll(workDir, 0o755)
	type task struct {
		ob   *Obligation
		file string
		idx  int
		vac  bool
	}
	var tasks []task
	for _, ob := range obls {
		if len(ob.VCs) == 0 {
			ob.Status = "trivial"
			continue
		}
		for i, vc := range ob.VCs {
			q := &Query{Assumps: vc.Assumps, Goal: vc.Goal, Comment: ob.Name + "\n" + strings.ReplaceAll(vc.Note, "\n", " ") + "\nfrom: " + vc.From + " " + ob.Pos}
			fn := filepath.Join(workDir, sanitizeFile(ob.Name)+fmt.Sprintf(".%d.smt2", i))
			os.WriteFile(fn, []byte(q.Render(true, nil)), 0o644)
			tasks = append(tasks, task{ob, fn, i, vc.Goal == nil})
		}
	}
	var mu sync.Mutex
	var wg sync.WaitGroup
	sem := make(chan struct{}, par)
	results := map[*Obligation][]SolverResult{}
	for _, t := range tasks {
		wg.Add(1)
		sem <- struct{}{}
		go func(t task) {
			defer wg.Done()
			defer func() { <-sem }()
			r := Solve(t.file, timeoutS, all, seed)
			mu.Lock()
			if results[t.ob] == nil {
				results[t.ob] = make([]SolverResult, len(t.ob.VCs))
			}
			results[t.ob][t.idx] = r
			mu.Unlock()
		}(t)
	}
	wg.Wait()
	for _, ob := range obls {
		rs := results[ob]
		if rs == nil {
			continue
		}
		ob.Status = "discharged"
		for i, r := range rs {
			ob.Ms += r.Ms
			if r.Ms > ob.MaxMs {
				ob.MaxMs = r.Ms
			}
			if ob.Solver == "" {
				ob.Solver = r.Solver
			}
			file := filepath.Join(workDir, sanitizeFile(ob.Name)+fmt.Sprintf(".%d.smt2", i))
			if ob.Kind == "vacuity" {
				// satisfiability check: sat is good, unsat means vacuous assumptions
				switch r.Status {
				case "sat":
				case "unsat":
					ob.Status = "refuted"
					ob.SMTFile = file
					ob.Model = "assumptions are contradictory (vacuous proof)"
				default:
					// unknown on a satisfiability check: not a failure of the property; keep as discharged-unknown
					if ob.Status == "discharged" {
						ob.Status = "sat-unknown"
					}
				}
				continue
			}
			switch r.Status {
			case "unsat":
			case "sat":
				ob.Status = "refuted"
				ob.SMTFile = file
				ob.Model = r.Output
				ob.Solver = r.Solver
			case "disagree":
				ob.Status = "disagree"
				ob.SMTFile = file
				ob.Model = r.Output
			default:
				if ob.Status == "discharged" {
					ob.Status = "unknown"
					ob.SMTFile = file
					ob.Model = r.Status + ": " + firstLines(r.Output, 3)
				}
			}
		}
	}
}

func firstLines(s string, n int) string {
	ls := strings.Split(s, "\n")
	if len(ls) > n {
		ls = ls[:n]
	}
	return strings.Join(ls, " | ")
}

func sanitizeFile(s string) string {
	r := strings.NewReplacer("/", "_", "(", "", ")", "", "*", "p", "$", "_", "#", "-", " ", "_")
	return r.Replace(s)
}
