package main

// Counterexample search and replay. For a violated obligation of function F the engine
// re-executes F symbolically from its entry with loops unrolled (bounded mode), asks the
// solver for models of the *observable* obligations (panics, executable postconditions),
// decodes the inputs and runs the real code on them through an in-package test injected
// with `go test -overlay` (nothing is written to the repository).

import (
	"bytes"
	"context"
	"encoding/json"
	"fmt"
	"go/types"
	"os"
	"os/exec"
	"path/filepath"
	"regexp"
	"sort"
	"strconv"
	"strings"
	"time"

	"golang.org/x/tools/go/ssa"
)

type fnEntry struct {
	fn  *ssa.Function
	con *Contract
}

var observableKinds = map[string]bool{"index": true, "slice": true, "nil": true, "div": true, "typeassert": true, "nilmap": true, "panic": true, "makeslice": true, "post": true}

type paramPlan struct {
	name string
	kind string // string | bytes | int | bool | reader
	val  *Val
}

func planParams(fn *ssa.Function, params []*Val) ([]paramPlan, string, bool) {
	var plans []paramPlan
	recv := ""
	start := 0
	if fn.Signature.Recv() != nil {
		rt := fn.Signature.Recv().Type()
		if _, isPtr := rt.(*types.Pointer); isPtr {
			return nil, "", false
		}
		st, ok := rt.Underlying().(*types.Struct)
		if !ok || st.NumFields() != 0 {
			return nil, "", false
		}
		recv = rt.(*types.Named).Obj().Name() + "{}."
		start = 1
	}
	for i := start; i < len(fn.Params); i++ {
		p := fn.Params[i]
		pp := paramPlan{name: p.Name(), val: params[i]}
		switch {
		case isString(p.Type()):
			pp.kind = "string"
		case isBool(p.Type()):
			pp.kind = "bool"
		case isInteger(p.Type()):
			pp.kind = "int"
		case isSlice(p.Type()):
			el := p.Type().Underlying().(*types.Slice).Elem()
			if b, ok := el.Underlying().(*types.Basic); ok && b.Kind() == types.Uint8 {
				pp.kind = "bytes"
			} else {
				return nil, "", false
			}
		case typeStrQ(p.Type()) == "io.Reader":
			pp.kind = "reader"
		default:
			return nil, "", false
		}
		plans = append(plans, pp)
	}
	return plans, recv, true
}

const maxDecode = 24

// tryReplay searches a reachable failing input for the function of the violated obligation
// and replays it on the real code.
func tryReplay(e *Engine, ob *Obligation, rec map[string]interface{}, repo, verif string) bool {
	ent, ok := e.fnByShort[ob.Func]
	if !ok || ent.fn == nil {
		return false
	}
	if cached, ok := e.replayCache[ob.Func]; ok {
		for k, v := range cached.rec {
			rec[k] = v
		}
		return cached.ok
	}
	result := false
	cache := &replayResult{rec: map[string]interface{}{}}
	defer func() {
		cache.ok = result
		e.replayCache[ob.Func] = cache
		for k, v := range cache.rec {
			rec[k] = v
		}
	}()
	deadline := time.Now().Add(90 * time.Second)
	tried := 0
	for k := 1; k <= 3 && time.Now().Before(deadline); k++ {
		sub := &Engine{prog: e.prog, db: e.db, prop: e.prop, cfg: e.cfg, obls: map[string]*Obligation{}, immutableHeap: e.immutableHeap, unroll: k, axiomsDone: true, fnByShort: e.fnByShort, replayCache: e.replayCache}
		savedBoth := e.both
		sub.both = false
		func() {
			defer func() { recover() }() // path explosion etc.: give up on this bound
			x := sub.newFnCtx(ent.fn, ent.con)
			x.unroll = k
			x.maxPaths = 30000
			x.explore()
			sub.lastParams = x.lastParams
		}()
		e.both = savedBoth
		if sub.lastParams == nil {
			continue
		}
		plans, recv, ok := planParams(ent.fn, sub.lastParams)
		if !ok {
			cache.rec["replay_note"] = "no replay template for the parameter types of " + ob.Func
			return false
		}
		var names []string
		for n := range sub.obls {
			names = append(names, n)
		}
		prio := func(kind string) int {
			switch kind {
			case "index", "slice", "div", "nilmap", "typeassert", "makeslice":
				return 0
			case "post":
				return 1
			}
			return 2
		}
		sort.Slice(names, func(a, b int) bool {
			pa, pb := prio(sub.obls[names[a]].Kind), prio(sub.obls[names[b]].Kind)
			if pa != pb {
				return pa < pb
			}
			return names[a] < names[b]
		})
		// gather candidate inputs from the models of all observable obligations, then run once
		var all []*decodedInput
		var posts []*Obligation
		for _, n := range names {
			o2 := sub.obls[n]
			if !observableKinds[o2.Kind] {
				continue
			}
			got := 0
			for _, vc := range o2.VCs {
				if time.Now().After(deadline) || tried > 120 || got >= 4 {
					break
				}
				if vc.Goal == nil {
					continue
				}
				tried++
				if inputs, ok := solveForInputs(vc, plans, filepath.Join(verif, "work", e.prop)); ok {
					all = append(all, inputs)
					got++
					if o2.Kind == "post" {
						posts = append(posts, o2)
					}
				}
			}
		}
		if len(all) == 0 {
			continue
		}
		okRun, detail := runReplay(ent.fn, recv, plans, all, posts, ob, repo, verif, e.prop)
		if !okRun && detail != nil {
			cache.rec["last_replay_attempt"] = detail
		}
		if okRun {
			cache.rec["replay"] = detail
			cache.rec["replay_unroll_bound"] = k
			result = true
			return true
		}
	}
	cache.rec["replay_note"] = fmt.Sprintf("bounded search (unroll <= 3, %d candidate models) found no input that reproduces an observable failure", tried)
	return false
}

type replayResult struct {
	ok  bool
	rec map[string]interface{}
}

type decodedInput struct {
	bytes [][]byte // per data parameter
	ints  map[string]string
	bools map[string]bool
}

// solveForInputs asks z3 for a model of (assumptions and not goal) and decodes the parameters.
func solveForInputs(vc *VC, plans []paramPlan, workDir string) (*decodedInput, bool) {
	var terms []*Term
	type slot struct {
		plan int
		what string
		idx  int
	}
	var slots []slot
	for pi, p := range plans {
		switch p.kind {
		case "string":
			terms = append(terms, SLen(p.val.L[0]))
			slots = append(slots, slot{pi, "len", 0})
			for i := 0; i < maxDecode; i++ {
				terms = append(terms, TC.mk(KApp, declStr("sat", []Sort{SStr, SInt}, SInt), SInt, []*Term{p.val.L[0], IntLit(int64(i))}, nil, nil))
				slots = append(slots, slot{pi, "byte", i})
			}
		case "bytes":
			terms = append(terms, p.val.Len())
			slots = append(slots, slot{pi, "len", 0})
			arr := Select(Sym("H.E:uint8", ArrSort(SInt, ArrSort(SInt, SInt))), p.val.Arr())
			for i := 0; i < maxDecode; i++ {
				terms = append(terms, Select(arr, Add(p.val.Off(), IntLit(int64(i)))))
				slots = append(slots, slot{pi, "byte", i})
			}
		case "reader":
			inp := App("spec.rinput", ArrSort(SInt, SInt), p.val.L[1])
			pos0 := Select(Sym("H.$g.rpos", ArrSort(SInt, SInt)), p.val.L[1])
			terms = append(terms, pos0)
			slots = append(slots, slot{pi, "pos0", 0})
			for i := 0; i < maxDecode; i++ {
				terms = append(terms, Select(inp, Add(pos0, IntLit(int64(i)))))
				slots = append(slots, slot{pi, "byte", i})
			}
		case "int":
			terms = append(terms, p.val.L[0])
			slots = append(slots, slot{pi, "int", 0})
		case "bool":
			terms = append(terms, p.val.L[0])
			slots = append(slots, slot{pi, "bool", 0})
		}
	}
	q := &Query{Assumps: vc.Assumps, Goal: vc.Goal, Comment: "counterexample search (bounded mode)"}
	os.MkdirAll(workDir, 0o755)
	file := filepath.Join(workDir, fmt.Sprintf("replay-%d.smt2", time.Now().UnixNano()))
	os.WriteFile(file, []byte(q.Render(true, terms)), 0o644)
	defer os.Remove(file)
	ctx, cancel := context.WithTimeout(context.Background(), 12*time.Second)
	defer cancel()
	cmd := exec.CommandContext(ctx, "z3-new", "-T:10", file)
	var out bytes.Buffer
	cmd.Stdout = &out
	cmd.Stderr = &out
	cmd.Run()
	txt := out.String()
	var lines []string
	for _, l := range strings.Split(txt, "\n") {
		if !strings.HasPrefix(strings.TrimSpace(l), "WARNING") {
			lines = append(lines, l)
		}
	}
	txt = strings.Join(lines, "\n")
	if !strings.HasPrefix(strings.TrimSpace(txt), "sat") {
		return nil, false
	}
	vals := parseGetValue(txt)
	if len(vals) != len(terms) {
		return nil, false
	}
	di := &decodedInput{bytes: make([][]byte, len(plans)), ints: map[string]string{}, bools: map[string]bool{}}
	lens := map[int]int{}
	raw := map[int][]byte{}
	for i, s := range slots {
		v := vals[i]
		switch s.what {
		case "len":
			n, err := strconv.Atoi(v)
			if err != nil || n < 0 || n > maxDecode {
				return nil, false // too large to decode
			}
			lens[s.plan] = n
		case "pos0":
		case "byte":
			n, err := strconv.Atoi(v)
			if err != nil || n < 0 || n > 255 {
				n = 'a'
			}
			raw[s.plan] = append(raw[s.plan], byte(n))
		case "int":
			di.ints[plans[s.plan].name] = v
		case "bool":
			di.bools[plans[s.plan].name] = v == "true"
		}
	}
	for pi, p := range plans {
		switch p.kind {
		case "string", "bytes":
			di.bytes[pi] = raw[pi][:lens[pi]]
		case "reader":
			di.bytes[pi] = raw[pi]
		}
	}
	return di, true
}

// parseGetValue extracts the values of a (get-value ...) answer in order.
func parseGetValue(txt string) []string {
	i := strings.Index(txt, "((")
	if i < 0 {
		return nil
	}
	s := txt[i+1:]
	var vals []string
	depth := 0
	start := -1
	for k := 0; k < len(s); k++ {
		switch s[k] {
		case '(':
			if depth == 0 {
				start = k
			}
			depth++
		case ')':
			depth--
			if depth == 0 && start >= 0 {
				pair := s[start+1 : k]
				vals = append(vals, lastSexp(pair))
				start = -1
			}
			if depth < 0 {
				return vals
			}
		}
	}
	return vals
}

// lastSexp returns the last s-expression of "term value", normalising (- n) to -n.
func lastSexp(pair string) string {
	pair = strings.TrimSpace(pair)
	if strings.HasSuffix(pair, ")") {
		depth := 0
		for k := len(pair) - 1; k >= 0; k-- {
			if pair[k] == ')' {
				depth++
			}
			if pair[k] == '(' {
				depth--
				if depth == 0 {
					v := strings.TrimSpace(pair[k:])
					if m := regexp.MustCompile(`^\(-\s*(\d+)\)$`).FindStringSubmatch(v); m != nil {
						return "-" + m[1]
					}
					return v
				}
			}
		}
	}
	f := strings.Fields(pair)
	return f[len(f)-1]
}

func goBytes(b []byte) string {
	var sb strings.Builder
	sb.WriteString("\"")
	for _, c := range b {
		sb.WriteString(fmt.Sprintf("\\x%02x", c))
	}
	sb.WriteString("\"")
	return sb.String()
}

// runReplay generates the in-package test and runs it with an overlay.
func runReplay(fn *ssa.Function, recv string, plans []paramPlan, ins []*decodedInput, posts []*Obligation, ob *Obligation, repo, verif, prop string) (bool, map[string]interface{}) {
	in := ins[0]
	pkgPath := pkgOf(fn)
	rel := strings.TrimPrefix(strings.TrimPrefix(pkgPath, repoPrefix), "/")
	pkgDir := filepath.Join(repo, rel)
	pkgName := fn.Pkg.Pkg.Name()
	// the primary data parameter gets all prefixes of the decoded bytes as candidates
	primary := -1
	for i, p := range plans {
		if p.kind == "string" || p.kind == "bytes" || p.kind == "reader" {
			primary = i
			break
		}
	}
	var cands []string
	if primary >= 0 {
		seen := map[string]bool{}
		add := func(b []byte) {
			k := string(b)
			if !seen[k] && len(cands) < 400 {
				seen[k] = true
				cands = append(cands, goBytes(b))
			}
		}
		for _, di := range ins {
			full := di.bytes[primary]
			add(full)
			if plans[primary].kind == "reader" {
				for n := 0; n <= len(full); n++ {
					add(full[:n])
				}
			}
		}
	} else {
		cands = []string{"\"\""}
	}
	var args []string
	usesStrings := false
	for i, p := range plans {
		switch p.kind {
		case "string":
			if i == primary {
				args = append(args, "c")
			} else {
				args = append(args, goBytes(in.bytes[i]))
			}
		case "bytes":
			if i == primary {
				args = append(args, "[]byte(c)")
			} else {
				args = append(args, "[]byte("+goBytes(in.bytes[i])+")")
			}
		case "reader":
			args = append(args, "strings.NewReader(c)")
			usesStrings = true
		case "int":
			args = append(args, in.ints[p.name])
		case "bool":
			args = append(args, fmt.Sprintf("%v", in.bools[p.name]))
		}
	}
	// results and the executable form of the violated postcondition
	sig := fn.Signature
	var resNames []string
	for i := 0; i < sig.Results().Len(); i++ {
		n := sig.Results().At(i).Name()
		if n == "" || n == "_" {
			n = fmt.Sprintf("r%d", i)
		}
		resNames = append(resNames, n)
	}
	postCheck := ""
	donePost := map[string]bool{}
	for _, po := range posts {
		if donePost[po.Name] || !strings.HasPrefix(po.Desc, "ensures ") {
			continue
		}
		donePost[po.Name] = true
		if e, err := ParseSpecExpr(strings.TrimPrefix(po.Desc, "ensures ")); err == nil {
			if g, ok := specToGo(e, fn, plans, resNames); ok {
				postCheck += fmt.Sprintf("\t\t\tif !(%s) {\n\t\t\t\tfmt.Printf(\"REPRODUCED postcondition violated (%s) input=%%q\\n\", c)\n\t\t\t}\n", g, po.Name)
			}
		}
	}
	call := recv + fn.Name() + "(" + strings.Join(args, ", ") + ")"
	assign := ""
	if len(resNames) > 0 {
		assign = strings.Join(resNames, ", ") + " := "
	}
	var use []string
	for _, r := range resNames {
		use = append(use, "_ = "+r)
	}
	imports := "\"fmt\"\n\t\"testing\"\n"
	if usesStrings {
		imports += "\t\"strings\"\n"
	}
	src := fmt.Sprintf(`package %s

import (
	%s)

// generated by gowp: replay of a solver counterexample for %s
func TestGowpReplay(t *testing.T) {
	for _, c := range []string{%s} {
		func() {
			defer func() {
				if r := recover(); r != nil {
					fmt.Printf("REPRODUCED panic input=%%q: %%v\n", c, r)
				}
			}()
			%s%s
			%s
%s		}()
	}
}
`, pkgName, imports, ob.Name, strings.Join(cands, ", "), assign, call, strings.Join(use, "; "), postCheck)
	work := filepath.Join(verif, "work", prop)
	os.MkdirAll(work, 0o755)
	testFile := filepath.Join(work, "zz_gowp_replay_test.go")
	os.WriteFile(testFile, []byte(src), 0o644)
	ov := map[string]map[string]string{"Replace": {filepath.Join(pkgDir, "zz_gowp_replay_test.go"): testFile}}
	ovb, _ := json.Marshal(ov)
	ovFile := filepath.Join(work, "replay_overlay.json")
	os.WriteFile(ovFile, ovb, 0o644)
	ctx, cancel := context.WithTimeout(context.Background(), 120*time.Second)
	defer cancel()
	argv := []string{"test", "-overlay", ovFile, "-vet=off", "-v", "-count=1", "-timeout", "60s", "-run", "^TestGowpReplay$", "./" + rel + "/"}
	cmd := exec.CommandContext(ctx, "go", argv...)
	cmd.Dir = repo
	cmd.Env = append(os.Environ(), "GOFLAGS=-mod=mod", "GOPROXY=off", "GOSUMDB=off", "GOTOOLCHAIN=local")
	var out bytes.Buffer
	cmd.Stdout = &out
	cmd.Stderr = &out
	cmd.Run()
	txt := out.String()
	detail := map[string]interface{}{
		"command":     "cd " + repo + " && go " + strings.Join(argv, " "),
		"test_file":   testFile,
		"test_source": src,
		"output":      truncate(txt, 3000),
	}
	want := "REPRODUCED"
	for _, l := range strings.Split(txt, "\n") {
		if strings.HasPrefix(l, want) {
			detail["reproduced"] = l
			return true, detail
		}
	}
	return false, detail
}

// specToGo translates the executable subset of the contract language to Go.
func specToGo(e *SExpr, fn *ssa.Function, plans []paramPlan, res []string) (string, bool) {
	names := map[string]string{}
	for _, p := range fn.Params {
		names[p.Name()] = p.Name()
	}
	for i := 0; i < fn.Signature.Results().Len(); i++ {
		n := fn.Signature.Results().At(i).Name()
		if n != "" {
			names[n] = res[i]
		}
		names[fmt.Sprintf("result%d", i)] = res[i]
	}
	if len(res) == 1 {
		names["result"] = res[0]
	}
	// parameters are bound to the candidate `c`
	primaryDone := false
	for _, p := range plans {
		if !primaryDone && (p.kind == "string" || p.kind == "bytes") {
			if p.kind == "string" {
				names[p.name] = "c"
			} else {
				names[p.name] = "[]byte(c)"
			}
			primaryDone = true
		}
	}
	var tr func(e *SExpr) (string, bool)
	tr = func(e *SExpr) (string, bool) {
		switch e.Kind {
		case "int":
			return e.Op, true
		case "str":
			return strconv.Quote(e.Op), true
		case "ident":
			if e.Op == "nil" || e.Op == "true" || e.Op == "false" {
				return e.Op, true
			}
			if g, ok := names[e.Op]; ok {
				return g, true
			}
			return "", false
		case "un":
			a, ok := tr(e.Args[0])
			return "(" + e.Op + a + ")", ok
		case "bin":
			a, ok1 := tr(e.Args[0])
			b, ok2 := tr(e.Args[1])
			if !ok1 || !ok2 {
				return "", false
			}
			switch e.Op {
			case "==>":
				return "(!(" + a + ") || (" + b + "))", true
			case "<==>":
				return "((" + a + ") == (" + b + "))", true
			}
			return "(" + a + " " + e.Op + " " + b + ")", true
		case "index":
			a, ok1 := tr(e.Args[0])
			b, ok2 := tr(e.Args[1])
			return a + "[" + b + "]", ok1 && ok2
		case "call":
			if e.Args[0].Kind == "ident" && e.Args[0].Op == "len" && len(e.Args) == 2 {
				a, ok := tr(e.Args[1])
				return "len(" + a + ")", ok
			}
			return "", false
		}
		return "", false
	}
	return tr(e)
}

// rerunReplay re-executes a recorded replay (./check <ID> --replay <file>): exit 1 when the
// failure reproduces on the current tree, 0 when it does not, 3 when the file has no replay.
func rerunReplay(file, repo, verif, prop string) int {
	b, err := os.ReadFile(file)
	if err != nil {
		fmt.Println("cannot read", file, err)
		return 3
	}
	var rec map[string]interface{}
	if err := json.Unmarshal(b, &rec); err != nil {
		fmt.Println("bad replay file:", err)
		return 3
	}
	fmt.Printf("obligation: %v\nreason: %v\n", rec["obligation"], rec["reason"])
	rp, ok := rec["replay"].(map[string]interface{})
	if !ok {
		fmt.Println("this violation carries no concrete input (no-failing-input-found); solver output:")
		fmt.Println(rec["solver_output"])
		return 3
	}
	src, _ := rp["test_source"].(string)
	cmdline, _ := rp["command"].(string)
	work := filepath.Join(verif, "work", prop)
	os.MkdirAll(work, 0o755)
	testFile := filepath.Join(work, "zz_gowp_replay_test.go")
	os.WriteFile(testFile, []byte(src), 0o644)
	// the overlay maps the generated test into the package directory named in the command
	m := regexp.MustCompile(`\./(\S+)/$`).FindStringSubmatch(cmdline)
	if m == nil {
		fmt.Println("cannot find the package in the recorded command")
		return 3
	}
	ov := map[string]map[string]string{"Replace": {filepath.Join(repo, m[1], "zz_gowp_replay_test.go"): testFile}}
	ovb, _ := json.Marshal(ov)
	ovFile := filepath.Join(work, "replay_overlay.json")
	os.WriteFile(ovFile, ovb, 0o644)
	cmd := exec.Command("go", "test", "-overlay", ovFile, "-vet=off", "-v", "-count=1", "-timeout", "60s", "-run", "^TestGowpReplay$", "./"+m[1]+"/")
	cmd.Dir = repo
	cmd.Env = append(os.Environ(), "GOFLAGS=-mod=mod", "GOPROXY=off", "GOSUMDB=off", "GOTOOLCHAIN=local")
	out, _ := cmd.CombinedOutput()
	fmt.Print(string(out))
	if strings.Contains(string(out), "REPRODUCED") {
		fmt.Printf("VIOLATION property=%s replay=%s (reproduced)\n", prop, file)
		return 1
	}
	fmt.Println("the recorded input does not reproduce a failure on the current tree")
	return 0
}
