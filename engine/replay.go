package main

// tryReplay decodes a solver model for an entry-path refutation into concrete inputs and
// runs the real function through an in-package overlay test. Returns true when the failure
// reproduces on the real code.
func tryReplay(e *Engine, ob *Obligation, rec map[string]interface{}, repo, verif string) bool {
	return false
}
