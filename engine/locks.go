package main

// L5: lock discipline (ghost lock set), monitor invariants, guarded fields.

import (
	"fmt"
	"go/types"
	"strings"

	"golang.org/x/tools/go/ssa"
)

func (x *fnCtx) lockLayer() bool {
	return x.eng.cfg.Mode == "conc" && x.eng.cfg.Layers["lock"]
}

func lockArr(h *Heap) *Term { return hget(h, "$lock", ArrSort(SInt, SInt)) }

func (x *fnCtx) lockHeld(env *specEnv, l *Val, mode int64) *Term {
	if !x.lockLayer() {
		return True // sequential pass: lock operations are no-ops
	}
	id := l.L[0]
	cur := Select(lockArr(env.heap), id)
	return Eq(cur, IntLit(mode))
}

// typeSpecOf finds the //@ type block for a named struct type.
func (x *fnCtx) typeSpecOf(t types.Type) *TypeSpec {
	n, ok := t.(*types.Named)
	if !ok || n.Obj().Pkg() == nil {
		return nil
	}
	return x.eng.db.Types[n.Obj().Pkg().Path()+"."+n.Obj().Name()]
}

func fieldIndex(t types.Type, name string) int {
	st, ok := t.Underlying().(*types.Struct)
	if !ok {
		return -1
	}
	for i := 0; i < st.NumFields(); i++ {
		if st.Field(i).Name() == name {
			return i
		}
	}
	return -1
}

// guardOf returns the guard declaration for the field addressed by a (top-level field of Root).
func (x *fnCtx) guardOf(a *Addr) (ts *TypeSpec, g *GuardDecl, fieldName string) {
	if a == nil || a.Kind != AObj || len(a.Path) == 0 {
		return nil, nil, ""
	}
	ts = x.typeSpecOf(a.Root)
	if ts == nil {
		return nil, nil, ""
	}
	st := a.Root.Underlying().(*types.Struct)
	fieldName = st.Field(a.Path[0]).Name()
	for i := range ts.Guards {
		if ts.Guards[i].Field == fieldName && !ts.Guards[i].ChanOnly {
			return ts, &ts.Guards[i], fieldName
		}
	}
	return ts, nil, fieldName
}

// chanGuardOf returns the `chan f guarded_by mu` declaration for the field addressed by a.
func (x *fnCtx) chanGuardOf(a *Addr) (ts *TypeSpec, g *GuardDecl) {
	if a == nil || a.Kind != AObj || len(a.Path) == 0 {
		return nil, nil
	}
	ts = x.typeSpecOf(a.Root)
	if ts == nil {
		return nil, nil
	}
	st := a.Root.Underlying().(*types.Struct)
	fieldName := st.Field(a.Path[0]).Name()
	for i := range ts.Guards {
		if ts.Guards[i].Field == fieldName && ts.Guards[i].ChanOnly {
			return ts, &ts.Guards[i]
		}
	}
	return ts, nil
}

func (x *fnCtx) lockIDFor(a *Addr, lockField string) *Term {
	idx := fieldIndex(a.Root, lockField)
	if idx < 0 {
		x.fail("guard names unknown lock field %s in %s", lockField, typeStr(a.Root))
	}
	return fieldAddrTerm(&Addr{Kind: AObj, Base: a.Base, Root: a.Root, Path: []int{idx}})
}

func (x *fnCtx) isFreshObj(st *State, fr *Frame, base *Term) *Term {
	if st.fresh[base] {
		return True
	}
	top := st.frames[0]
	alloc0 := hget(top.oldHeap, "$alloc", ArrSort(SInt, SBool))
	return Not(Select(alloc0, base))
}

func (x *fnCtx) lockCheckAccess(st *State, fr *Frame, in ssa.Instruction, a *Addr, write bool) {
	if !x.lockLayer() {
		return
	}
	target := a
	if a.Kind == AElem && a.Owner != nil {
		target = a.Owner // element of a slice stored in a guarded field
	}
	ts, g, fname := x.guardOf(target)
	if ts == nil || g == nil {
		return
	}
	what := "read"
	if write {
		what = "write"
	}
	short := x.curShort(fr)
	desc := fmt.Sprintf("%s of %s.%s", what, ts.Name, fname)
	fresh := x.isFreshObj(st, fr, target.Base)
	switch g.Lock {
	case "immutable":
		if write {
			x.addVC(st, short, "guard", x.ord(fr, in), "", fresh, desc+" (immutable after construction)", x.eng.posStr(in.Pos()))
		}
	case "owned", "stable":
	default:
		id := x.lockIDFor(target, g.Lock)
		cur := Select(lockArr(st.heap), id)
		var cond *Term
		if write {
			cond = Eq(cur, IntLit(2))
		} else {
			cond = Ge(cur, IntLit(1))
		}
		x.addVC(st, short, "guard", x.ord(fr, in), "", Or(fresh, cond), desc+" requires "+g.Lock+" held", x.eng.posStr(in.Pos()))
	}
}

func (x *fnCtx) lockCheckMap(st *State, fr *Frame, in ssa.Instruction, m *Val, write bool) {
	if !x.lockLayer() || m.Src == nil {
		return
	}
	ts, g, fname := x.guardOf(m.Src)
	if ts == nil || g == nil || g.Lock == "immutable" || g.Lock == "owned" || g.Lock == "stable" {
		if g != nil && g.Lock == "immutable" {
			// the field is immutable but the map contents are not protected by that
		}
		return
	}
	what := "read"
	if write {
		what = "write"
	}
	id := x.lockIDFor(m.Src, g.Lock)
	cur := Select(lockArr(st.heap), id)
	var cond *Term
	if write {
		cond = Eq(cur, IntLit(2))
	} else {
		cond = Ge(cur, IntLit(1))
	}
	fresh := x.isFreshObj(st, fr, m.Src.Base)
	x.addVC(st, x.curShort(fr), "guard", x.siteOrdAny(fr, in), "map", Or(fresh, cond), fmt.Sprintf("map %s of %s.%s requires %s held", what, ts.Name, fname, g.Lock), x.eng.posStr(in.Pos()))
}

// siteOrdAny gives an ordinal for instructions that have no siteKind of their own.
func (x *fnCtx) siteOrdAny(fr *Frame, in ssa.Instruction) int {
	if o := x.ord(fr, in); o != 0 {
		return o
	}
	// ordinal by position among Lookup/Next/MapUpdate/delete instructions
	n := 0
	for _, b := range fr.fn.Blocks {
		for _, i2 := range b.Instrs {
			switch i2.(type) {
			case *ssa.Lookup, *ssa.Next, *ssa.MapUpdate:
				n++
			}
			if i2 == in {
				return n
			}
		}
	}
	return n
}

// havocGuarded forgets everything protected by lock field `lockField` of object a.Base.
func (x *fnCtx) havocGuarded(st *State, owner *Addr, lockField string) {
	ts := x.typeSpecOf(owner.Root)
	if ts == nil {
		return
	}
	stt := owner.Root.Underlying().(*types.Struct)
	for _, g := range ts.Guards {
		if g.Lock != lockField {
			continue
		}
		idx := fieldIndex(owner.Root, g.Field)
		if idx < 0 {
			continue
		}
		ft := stt.Field(idx).Type()
		name, _ := heapKeyStruct(owner.Root, []int{idx})
		if g.ChanOnly {
			fa := &Addr{Kind: AObj, Base: owner.Base, Root: owner.Root, Path: []int{idx}, Elem: ft}
			cur := x.load(st, fa)
			closed := x.heapArr(st, "$chanclosed", ArrSort(SInt, SBool))
			nc := Fresh("havoc.closed", SBool)
			st.assume(Implies(Select(closed, cur.L[0]), nc)) // closing is monotone
			x.setHeap(st, "$chanclosed", Store(closed, cur.L[0], nc))
			continue
		}
		// contents first (they are reached through the old header)
		fa := &Addr{Kind: AObj, Base: owner.Base, Root: owner.Root, Path: []int{idx}, Elem: ft}
		cur := x.load(st, fa)
		switch u := ft.Underlying().(type) {
		case *types.Map:
			if ks, ok := mapSorts(u); ok {
				mn := mapHeapName(u)
				dom := x.heapArr(st, mn+"#dom", ArrSort(SInt, ArrSort(ks, SBool)))
				x.setHeap(st, mn+"#dom", Store(dom, cur.L[0], Fresh("havoc.dom", ArrSort(ks, SBool))))
				for _, l := range layout(u.Elem()) {
					hn := mn + "#val" + l.Suffix
					arr := x.heapArr(st, hn, ArrSort(SInt, ArrSort(ks, l.Sort)))
					x.setHeap(st, hn, Store(arr, cur.L[0], Fresh("havoc.val", ArrSort(ks, l.Sort))))
				}
				lenArr := x.heapArr(st, "$maplen", ArrSort(SInt, SInt))
				nl := Fresh("havoc.maplen", SInt)
				st.assume(Le(IntLit(0), nl))
				x.setHeap(st, "$maplen", Store(lenArr, cur.L[0], nl))
			}
		case *types.Slice:
			for li, l := range layout(u.Elem()) {
				x.setElemArr(st, u.Elem(), cur.Arr(), li, Fresh("havoc.elems", ArrSort(SInt, l.Sort)))
			}
		case *types.Chan:
			closed := x.heapArr(st, "$chanclosed", ArrSort(SInt, SBool))
			nc := Fresh("havoc.closed", SBool)
			// closing is monotone
			st.assume(Implies(Select(closed, cur.L[0]), nc))
			x.setHeap(st, "$chanclosed", Store(closed, cur.L[0], nc))
		}
		nv := freshVal(ft, "havoc."+g.Field, false)
		for _, f := range rangeFacts(nv) {
			st.assume(f)
		}
		x.assumeValAllocated(st, nv)
		// shared state cannot refer to objects this call allocated and has not published yet
		for li, l := range layout(ft) {
			if l.Role == "ref" || l.Role == "arr" {
				for r := range st.fresh {
					if !st.escaped[r] {
						st.assume(Ne(nv.L[li], r))
					}
				}
			}
		}
		for i, l := range layout(ft) {
			arr := x.heapArr(st, name+l.Suffix, ArrSort(SInt, l.Sort))
			x.setHeap(st, name+l.Suffix, Store(arr, owner.Base, nv.L[i]))
		}
	}
}

func (x *fnCtx) monitorClauses(owner *Addr, lockField string) []*Clause {
	ts := x.typeSpecOf(owner.Root)
	if ts == nil {
		return nil
	}
	return ts.Monitors[lockField]
}

func (x *fnCtx) evalMonitorAt(st *State, fr *Frame, owner *Addr, cl *Clause, old *Heap) *Term {
	self := &Val{T: types.NewPointer(owner.Root), L: []*Term{owner.Base}, A: &Addr{Kind: AObj, Base: owner.Base, Root: owner.Root, Elem: owner.Root}}
	env := &specEnv{x: x, st: st, heap: st.heap, old: old, names: map[string]nameBind{"self": {v: self}}, fr: fr}
	return x.evalSpecBool(env, cl.Expr)
}

func (x *fnCtx) evalMonitor(st *State, fr *Frame, owner *Addr, cl *Clause) *Term {
	self := &Val{T: types.NewPointer(owner.Root), L: []*Term{owner.Base}, A: &Addr{Kind: AObj, Base: owner.Base, Root: owner.Root, Elem: owner.Root}}
	env := &specEnv{x: x, st: st, heap: st.heap, old: fr.oldHeap, names: map[string]nameBind{"self": {v: self}}, fr: fr}
	return x.evalSpecBool(env, cl.Expr)
}

// lockOp models Lock/RLock/Unlock/RUnlock on the mutex addressed by recv.
func (x *fnCtx) lockOp(st *State, fr *Frame, in ssa.Instruction, recv *Val, op string) {
	if !x.lockLayer() {
		return
	}
	id := recv.L[0]
	short := x.curShort(fr)
	pos := ""
	ord := 0
	if in != nil {
		pos = x.eng.posStr(in.Pos())
		ord = x.ord(fr, in)
	}
	arr := lockArr(st.heap)
	cur := Select(arr, id)
	var owner *Addr
	lockField := ""
	if recv.A != nil && recv.A.Kind == AObj && len(recv.A.Path) >= 1 {
		stt := recv.A.Root.Underlying().(*types.Struct)
		lockField = stt.Field(recv.A.Path[0]).Name()
		owner = &Addr{Kind: AObj, Base: recv.A.Base, Root: recv.A.Root}
	}
	switch op {
	case "Lock", "RLock":
		mode := int64(2)
		if op == "RLock" {
			mode = 1
		}
		x.addVC(st, short, "lock", ord, "", Eq(cur, IntLit(0)), op+" of a mutex this goroutine may already hold (self-deadlock)", pos)
		x.setHeap(st, "$lock", Store(arr, id, IntLit(mode)))
		st.locks = append(st.locks, id)
		if owner != nil {
			x.havocGuarded(st, owner, lockField)
			// two-state monitor invariants compare against the state at acquisition
			if st.lockSnap == nil {
				st.lockSnap = map[*Term]*Heap{}
			}
			st.lockSnap[id] = st.heap.snapshot()
			for _, cl := range x.monitorClauses(owner, lockField) {
				st.assume(x.evalMonitorAt(st, fr, owner, cl, st.lockSnap[id]))
			}
		}
	case "Unlock", "RUnlock":
		mode := int64(2)
		if op == "RUnlock" {
			mode = 1
		}
		x.addVC(st, short, "unlock", ord, "", Eq(cur, IntLit(mode)), op+" of a mutex not held in that mode", pos)
		if owner != nil {
			if mode == 2 {
				for i, cl := range x.monitorClauses(owner, lockField) {
					snap := st.lockSnap[id]
					if snap == nil {
						snap = st.heap
					}
					x.addVC(st, short, "monitor", ord, fmt.Sprintf("%d", i+1), x.evalMonitorAt(st, fr, owner, cl, snap), "monitor invariant at Unlock (old = state at Lock): "+cl.Text, pos)
				}
			}
			x.setHeap(st, "$lock", Store(arr, id, IntLit(0)))
			x.havocGuarded(st, owner, lockField)
		} else {
			x.setHeap(st, "$lock", Store(arr, id, IntLit(0)))
		}
	}
}

func (x *fnCtx) assumeHeldAtEntry(st *State, fr *Frame, env *specEnv) {
	if !x.lockLayer() {
		return
	}
	// no lock of this goroutine is held at entry except those named by holds/releases
	var held []*Term
	for _, cl := range x.con.Clauses {
		if cl.Kind == "holds" || cl.Kind == "releases" {
			l := x.evalSpec(env, cl.Expr)
			held = append(held, l.L[0])
		}
	}
	arr := Fresh("lock0", ArrSort(SInt, SInt))
	base := ConstArray(ArrSort(SInt, SInt), IntLit(0))
	for _, h := range held {
		base = Store(base, h, IntLit(2))
	}
	st.assume(Eq(arr, base))
	st.heap.m["$lock"] = base
	heapSorts["$lock"] = ArrSort(SInt, SInt)
	for _, h := range held {
		st.locks = append(st.locks, h)
	}
}

func (x *fnCtx) lockCheckAtReturn(st *State, fr *Frame, env *specEnv) {
	if !x.lockLayer() {
		return
	}
	// postconditions that must hold under the concurrent semantics (guarded state is known
	// only while its lock is held): the atomicity claims of the lock layer
	for _, cl := range x.con.ClausesOf("conc_ensures") {
		if !cl.appliesTo(x.eng.prop) {
			continue
		}
		g := x.evalClause(env, cl.Expr, cl.Text)
		x.addVC(st, x.short, "lockpost", 100+cl.Ord, "conc", g, "conc_ensures "+cl.Text+" (holds under interleaving)", cl.Line)
	}
	keep := map[*Term]*Term{} // lock -> condition under which it stays held
	for _, cl := range x.con.Clauses {
		if cl.Kind == "holds" || cl.Kind == "acquires" {
			cond := True
			if cl.Cond != nil {
				c, ok := x.tryEval(env, cl.Cond)
				if !ok {
					x.addVC(st, x.short, "lockpost", cl.Ord, cl.Kind, False, cl.Kind+" "+cl.Text+": condition cannot be evaluated (contract-target-missing)", cl.Line)
					continue
				}
				cond = c
			}
			if cond == False {
				continue
			}
			var l *Val
			func() {
				defer func() {
					if r := recover(); r != nil {
						if _, ok := r.(engineError); ok && cl.Cond != nil {
							l = nil
							return
						}
						panic(r)
					}
				}()
				l = x.evalSpec(env, cl.Expr)
			}()
			if l == nil {
				// the lock expression is meaningful only under the condition (e.g. a nil result)
				x.addVC(st, x.short, "lockpost", cl.Ord, cl.Kind, Not(cond), cl.Kind+" "+cl.Text+": lock expression cannot be evaluated on this path", cl.Line)
				continue
			}
			if old, ok := keep[l.L[0]]; ok {
				keep[l.L[0]] = Or(old, cond)
			} else {
				keep[l.L[0]] = cond
			}
			x.addVC(st, x.short, "lockpost", cl.Ord, cl.Kind, Implies(cond, Eq(Select(lockArr(st.heap), l.L[0]), IntLit(2))), cl.Kind+" "+cl.Text+": lock held (write mode) at return", cl.Line)
		}
	}
	var conds []*Term
	for _, id := range st.locks {
		if c, ok := keep[id]; ok && c == True {
			continue
		}
		// the lock must be free unless it aliases a kept one
		c := Eq(Select(lockArr(st.heap), id), IntLit(0))
		for k, kc := range keep {
			c = Or(c, And(kc, Eq(id, k)))
		}
		conds = append(conds, c)
	}
	if len(conds) > 0 {
		x.addVC(st, x.short, "lockleak", 1, "", And(conds...), "every lock acquired is released on this path", "")
	}
}

func (x *fnCtx) lockCheckAtHeader(st *State, fr *Frame, ord int, back bool) {}

// applyLockClauses handles holds/acquires/releases clauses of a callee contract at a call site.
func (x *fnCtx) applyLockClauses(st *State, fr *Frame, in ssa.Instruction, con *Contract, env *specEnv, short string) {
	if !x.lockLayer() {
		return
	}
	for _, cl := range con.Clauses {
		switch cl.Kind {
		case "holds":
			l := x.evalSpec(env, cl.Expr)
			x.addVC(st, short, "pre", x.ord(fr, in), fmt.Sprintf("%s.holds%d", con.Func, cl.Ord), Eq(Select(lockArr(st.heap), l.L[0]), IntLit(2)), "callee "+con.Func+" requires lock held: "+cl.Text, x.eng.posStr(in.Pos()))
		case "acquires":
			if cl.Cond != nil {
				x.eng.logAbs("%s: conditional acquires of %s is applied after the call (result-dependent)", short, con.Func)
				continue
			}
			l := x.evalSpec(env, cl.Expr)
			x.lockOp(st, fr, in, l, "Lock")
		case "releases":
			l := x.evalSpec(env, cl.Expr)
			x.lockOp(st, fr, in, l, "Unlock")
		case "locks":
			// the callee takes (and gives back) this lock internally: the caller must not hold it -
			// not even for reading: a writer queued between the two read locks blocks both for ever
			l := x.evalSpec(env, cl.Expr)
			x.addVC(st, short, "lock", x.ord(fr, in), fmt.Sprintf("%s.locks%d", con.Func, cl.Ord), Eq(Select(lockArr(st.heap), l.L[0]), IntLit(0)), "callee "+con.Func+" locks a mutex this goroutine may already hold (self-deadlock): "+cl.Text, x.eng.posStr(in.Pos()))
		}
	}
}

var _ = strings.HasPrefix
