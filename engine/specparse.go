package main

// Parser for the contract expression language (Go-like expressions plus
// ==>, <==>, forall(k, body), exists(k, body), old(e), result, $names).

import (
	"fmt"
	"strconv"
	"strings"
	"unicode"
)

type SExpr struct {
	Kind string // ident, int, str, char, bin, un, call, index, slice, field, paren, typeassert
	Op   string // operator / identifier / literal text / field name
	Args []*SExpr
	Pos  int
}

func (e *SExpr) String() string {
	switch e.Kind {
	case "ident", "int":
		return e.Op
	case "str":
		return strconv.Quote(e.Op)
	case "char":
		return "'" + e.Op + "'"
	case "bin":
		return "(" + e.Args[0].String() + " " + e.Op + " " + e.Args[1].String() + ")"
	case "un":
		return e.Op + e.Args[0].String()
	case "call":
		var as []string
		for _, a := range e.Args[1:] {
			as = append(as, a.String())
		}
		return e.Args[0].String() + "(" + strings.Join(as, ", ") + ")"
	case "index":
		return e.Args[0].String() + "[" + e.Args[1].String() + "]"
	case "slice":
		lo, hi := "", ""
		if e.Args[1] != nil {
			lo = e.Args[1].String()
		}
		if e.Args[2] != nil {
			hi = e.Args[2].String()
		}
		return e.Args[0].String() + "[" + lo + ":" + hi + "]"
	case "field":
		return e.Args[0].String() + "." + e.Op
	}
	return "?"
}

type stok struct {
	kind string // id, int, str, char, op, eof
	text string
	pos  int
}

func specLex(src string) ([]stok, error) {
	var toks []stok
	i := 0
	for i < len(src) {
		c := src[i]
		switch {
		case c == ' ' || c == '\t' || c == '\n' || c == '\r':
			i++
		case unicode.IsLetter(rune(c)) || c == '_' || c == '$':
			j := i + 1
			for j < len(src) && (unicode.IsLetter(rune(src[j])) || unicode.IsDigit(rune(src[j])) || src[j] == '_' || src[j] == '$') {
				j++
			}
			toks = append(toks, stok{"id", src[i:j], i})
			i = j
		case c >= '0' && c <= '9':
			j := i + 1
			for j < len(src) && (src[j] >= '0' && src[j] <= '9' || src[j] == 'x' || src[j] >= 'a' && src[j] <= 'f' || src[j] >= 'A' && src[j] <= 'F') {
				j++
			}
			toks = append(toks, stok{"int", src[i:j], i})
			i = j
		case c == '"':
			j := i + 1
			for j < len(src) && src[j] != '"' {
				if src[j] == '\\' {
					j++
				}
				j++
			}
			if j >= len(src) {
				return nil, fmt.Errorf("unterminated string at %d", i)
			}
			s, err := strconv.Unquote(src[i : j+1])
			if err != nil {
				return nil, fmt.Errorf("bad string literal %s", src[i:j+1])
			}
			toks = append(toks, stok{"str", s, i})
			i = j + 1
		case c == '\'':
			j := i + 1
			for j < len(src) && src[j] != '\'' {
				if src[j] == '\\' {
					j++
				}
				j++
			}
			if j >= len(src) {
				return nil, fmt.Errorf("unterminated char at %d", i)
			}
			r, _, _, err := strconv.UnquoteChar(src[i+1:j], '\'')
			if err != nil {
				return nil, fmt.Errorf("bad char literal %s", src[i:j+1])
			}
			toks = append(toks, stok{"char", strconv.Itoa(int(r)), i})
			i = j + 1
		default:
			ops := []string{"<==>", "==>", "&&", "||", "==", "!=", "<=", ">=", "<<", ">>", "+", "-", "*", "/", "%", "<", ">", "!", "(", ")", "[", "]", ",", ".", ":", "&", "|", "^"}
			found := false
			for _, op := range ops {
				if strings.HasPrefix(src[i:], op) {
					toks = append(toks, stok{"op", op, i})
					i += len(op)
					found = true
					break
				}
			}
			if !found {
				return nil, fmt.Errorf("unexpected character %q at %d in %q", c, i, src)
			}
		}
	}
	toks = append(toks, stok{"eof", "", len(src)})
	return toks, nil
}

type sparser struct {
	toks []stok
	p    int
	src  string
}

func ParseSpecExpr(src string) (e *SExpr, err error) {
	toks, err := specLex(src)
	if err != nil {
		return nil, err
	}
	ps := &sparser{toks: toks, src: src}
	defer func() {
		if r := recover(); r != nil {
			if s, ok := r.(string); ok && strings.HasPrefix(s, "spec:") {
				err = fmt.Errorf("%s in %q", s, src)
				return
			}
			panic(r)
		}
	}()
	e = ps.parseIff()
	if ps.peek().kind != "eof" {
		panic(fmt.Sprintf("spec: unexpected token %q at %d", ps.peek().text, ps.peek().pos))
	}
	return e, nil
}

func (p *sparser) peek() stok { return p.toks[p.p] }
func (p *sparser) next() stok { t := p.toks[p.p]; p.p++; return t }
func (p *sparser) isOp(op string) bool {
	t := p.peek()
	return t.kind == "op" && t.text == op
}
func (p *sparser) expectOp(op string) {
	if !p.isOp(op) {
		panic(fmt.Sprintf("spec: expected %q at %d, got %q", op, p.peek().pos, p.peek().text))
	}
	p.next()
}

func (p *sparser) parseIff() *SExpr {
	l := p.parseImpl()
	for p.isOp("<==>") {
		p.next()
		r := p.parseImpl()
		l = &SExpr{Kind: "bin", Op: "<==>", Args: []*SExpr{l, r}}
	}
	return l
}

func (p *sparser) parseImpl() *SExpr {
	l := p.parseBin(1)
	if p.isOp("==>") {
		p.next()
		r := p.parseImpl() // right assoc
		return &SExpr{Kind: "bin", Op: "==>", Args: []*SExpr{l, r}}
	}
	return l
}

var binPrec = map[string]int{
	"||": 1, "&&": 2,
	"==": 3, "!=": 3, "<": 3, "<=": 3, ">": 3, ">=": 3,
	"+": 4, "-": 4, "|": 4, "^": 4,
	"*": 5, "/": 5, "%": 5, "<<": 5, ">>": 5, "&": 5,
}

func (p *sparser) parseBin(min int) *SExpr {
	l := p.parseUnary()
	for {
		t := p.peek()
		if t.kind != "op" {
			return l
		}
		pr, ok := binPrec[t.text]
		if !ok || pr < min {
			return l
		}
		p.next()
		r := p.parseBin(pr + 1)
		l = &SExpr{Kind: "bin", Op: t.text, Args: []*SExpr{l, r}, Pos: t.pos}
	}
}

func (p *sparser) parseUnary() *SExpr {
	if p.isOp("!") || p.isOp("-") {
		t := p.next()
		e := p.parseUnary()
		return &SExpr{Kind: "un", Op: t.text, Args: []*SExpr{e}, Pos: t.pos}
	}
	return p.parsePostfix()
}

func (p *sparser) parsePostfix() *SExpr {
	e := p.parsePrimary()
	for {
		switch {
		case p.isOp("."):
			p.next()
			t := p.next()
			if t.kind != "id" && t.kind != "int" {
				panic(fmt.Sprintf("spec: expected field name at %d", t.pos))
			}
			e = &SExpr{Kind: "field", Op: t.text, Args: []*SExpr{e}, Pos: t.pos}
		case p.isOp("("):
			p.next()
			args := []*SExpr{e}
			for !p.isOp(")") {
				args = append(args, p.parseIff())
				if p.isOp(",") {
					p.next()
				} else {
					break
				}
			}
			p.expectOp(")")
			e = &SExpr{Kind: "call", Args: args, Pos: e.Pos}
		case p.isOp("["):
			p.next()
			var lo, hi *SExpr
			if !p.isOp(":") {
				lo = p.parseIff()
			}
			if p.isOp(":") {
				p.next()
				if !p.isOp("]") {
					hi = p.parseIff()
				}
				p.expectOp("]")
				e = &SExpr{Kind: "slice", Args: []*SExpr{e, lo, hi}}
			} else {
				p.expectOp("]")
				e = &SExpr{Kind: "index", Args: []*SExpr{e, lo}}
			}
		default:
			return e
		}
	}
}

func (p *sparser) parsePrimary() *SExpr {
	t := p.next()
	switch t.kind {
	case "id":
		return &SExpr{Kind: "ident", Op: t.text, Pos: t.pos}
	case "int":
		v, err := strconv.ParseInt(t.text, 0, 64)
		if err != nil {
			panic("spec: bad integer " + t.text)
		}
		return &SExpr{Kind: "int", Op: strconv.FormatInt(v, 10), Pos: t.pos}
	case "str":
		return &SExpr{Kind: "str", Op: t.text, Pos: t.pos}
	case "char":
		return &SExpr{Kind: "int", Op: t.text, Pos: t.pos}
	case "op":
		if t.text == "(" {
			e := p.parseIff()
			p.expectOp(")")
			return e
		}
	}
	panic(fmt.Sprintf("spec: unexpected token %q at %d", t.text, t.pos))
}
