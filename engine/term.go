package main

// SMT term DAG with hash-consing, simplification on construction and printing.

import (
	"fmt"
	"sort"
	"strconv"
	"strings"
)

type Sort string

const (
	SInt  Sort = "Int"
	SBool Sort = "Bool"
	SStr  Sort = "Str"
)

func ArrSort(idx, el Sort) Sort { return Sort("(Array " + string(idx) + " " + string(el) + ")") }

func (s Sort) IsArray() bool { return strings.HasPrefix(string(s), "(Array ") }

// ArrParts splits "(Array I E)" into I and E.
func (s Sort) ArrParts() (Sort, Sort) {
	str := string(s)
	str = str[len("(Array ") : len(str)-1]
	// index sort is either a simple token or a parenthesised sort
	depth := 0
	for i, c := range str {
		switch c {
		case '(':
			depth++
		case ')':
			depth--
		case ' ':
			if depth == 0 {
				return Sort(str[:i]), Sort(str[i+1:])
			}
		}
	}
	panic("bad array sort " + string(s))
}

type Term struct {
	Op    string // operator / symbol name / literal
	Kind  int
	Args  []*Term
	Sort  Sort
	Bound []*Term // for quantifiers: bound variables
	Pats  []*Term // for quantifiers: patterns (optional)
	id    int
	hasBV bool // contains a bound variable
}

const (
	KConst   = iota // literal: 0, true, ...
	KSym            // declared constant (0-ary) — Op is its name
	KApp            // uninterpreted function application — Op is the function name
	KBuiltin        // SMT builtin: + - * div mod < <= = and or not => ite select store distinct
	KQuant          // forall / exists
	KBVar           // bound variable
)

type FunDecl struct {
	Name string
	Args []Sort
	Ret  Sort
}

type TermCtx struct {
	table   map[string]*Term
	nextID  int
	syms    map[string]Sort
	funs    map[string]*FunDecl
	fresh   map[string]int
	strLits map[string]*Term
	litList []string
}

func NewTermCtx() *TermCtx {
	return &TermCtx{table: map[string]*Term{}, syms: map[string]Sort{}, funs: map[string]*FunDecl{}, fresh: map[string]int{}, strLits: map[string]*Term{}}
}

var TC = NewTermCtx()

func (c *TermCtx) mk(kind int, op string, sort Sort, args []*Term, bound []*Term, pats []*Term) *Term {
	var sb strings.Builder
	sb.WriteString(strconv.Itoa(kind))
	sb.WriteByte('|')
	sb.WriteString(op)
	sb.WriteByte('|')
	sb.WriteString(string(sort))
	for _, a := range args {
		sb.WriteByte(',')
		sb.WriteString(strconv.Itoa(a.id))
	}
	if len(bound) > 0 {
		sb.WriteByte(';')
		for _, b := range bound {
			sb.WriteString(strconv.Itoa(b.id))
			sb.WriteByte(',')
		}
		sb.WriteByte(';')
		for _, b := range pats {
			sb.WriteString(strconv.Itoa(b.id))
			sb.WriteByte(',')
		}
	}
	key := sb.String()
	if t, ok := c.table[key]; ok {
		return t
	}
	c.nextID++
	t := &Term{Op: op, Kind: kind, Args: args, Sort: sort, Bound: bound, Pats: pats, id: c.nextID}
	if kind == KBVar {
		t.hasBV = true
	}
	for _, a := range args {
		if a.hasBV {
			t.hasBV = true
		}
	}
	c.table[key] = t
	return t
}

func sanitize(name string) string {
	var sb strings.Builder
	for _, r := range name {
		switch {
		case r >= 'a' && r <= 'z', r >= 'A' && r <= 'Z', r >= '0' && r <= '9', r == '_', r == '.', r == '$', r == '#', r == '!', r == '@':
			sb.WriteRune(r)
		default:
			sb.WriteByte('_')
		}
	}
	return sb.String()
}

// Sym returns the declared constant with this exact name (declaring it on first use).
func Sym(name string, sort Sort) *Term {
	name = sanitize(name)
	if s, ok := TC.syms[name]; ok && s != sort {
		// same name, other sort: disambiguate
		name = name + "!" + sanitize(strings.NewReplacer("(", "", ")", "", " ", "_").Replace(string(sort)))
	}
	TC.syms[name] = sort
	return TC.mk(KSym, name, sort, nil, nil, nil)
}

// Fresh returns a new constant with a unique name derived from hint.
func Fresh(hint string, sort Sort) *Term {
	hint = sanitize(hint)
	TC.fresh[hint]++
	name := fmt.Sprintf("%s!%d", hint, TC.fresh[hint])
	for {
		if _, ok := TC.syms[name]; !ok {
			break
		}
		TC.fresh[hint]++
		name = fmt.Sprintf("%s!%d", hint, TC.fresh[hint])
	}
	TC.syms[name] = sort
	return TC.mk(KSym, name, sort, nil, nil, nil)
}

func BVar(name string, sort Sort) *Term {
	TC.fresh["bv"]++
	return TC.mk(KBVar, fmt.Sprintf("%s?%d", sanitize(name), TC.fresh["bv"]), sort, nil, nil, nil)
}

func DeclFun(name string, args []Sort, ret Sort) *FunDecl {
	name = sanitize(name)
	if f, ok := TC.funs[name]; ok {
		return f
	}
	f := &FunDecl{Name: name, Args: args, Ret: ret}
	TC.funs[name] = f
	return f
}

func App(name string, ret Sort, args ...*Term) *Term {
	name = sanitize(name)
	if _, ok := TC.funs[name]; !ok {
		as := make([]Sort, len(args))
		for i, a := range args {
			as[i] = a.Sort
		}
		DeclFun(name, as, ret)
	}
	return TC.mk(KApp, name, ret, args, nil, nil)
}

func IntLit(v int64) *Term {
	return TC.mk(KConst, strconv.FormatInt(v, 10), SInt, nil, nil, nil)
}

func BigLit(s string) *Term { return TC.mk(KConst, s, SInt, nil, nil, nil) }

var (
	True  = TC.mk(KConst, "true", SBool, nil, nil, nil)
	False = TC.mk(KConst, "false", SBool, nil, nil, nil)
)

func BoolLit(b bool) *Term {
	if b {
		return True
	}
	return False
}

func (t *Term) IsLit() bool { return t.Kind == KConst }
func (t *Term) IntVal() (int64, bool) {
	if t.Kind == KConst && t.Sort == SInt {
		v, err := strconv.ParseInt(t.Op, 10, 64)
		if err == nil {
			return v, true
		}
	}
	return 0, false
}

func bi(op string, sort Sort, args ...*Term) *Term {
	return TC.mk(KBuiltin, op, sort, args, nil, nil)
}

func Not(a *Term) *Term {
	if a == True {
		return False
	}
	if a == False {
		return True
	}
	if a.Kind == KBuiltin && a.Op == "not" {
		return a.Args[0]
	}
	return bi("not", SBool, a)
}

func And(as ...*Term) *Term {
	var out []*Term
	seen := map[int]bool{}
	for _, a := range as {
		if a == True {
			continue
		}
		if a == False {
			return False
		}
		if a.Kind == KBuiltin && a.Op == "and" {
			for _, x := range a.Args {
				if !seen[x.id] {
					seen[x.id] = true
					out = append(out, x)
				}
			}
			continue
		}
		if !seen[a.id] {
			seen[a.id] = true
			out = append(out, a)
		}
	}
	if len(out) == 0 {
		return True
	}
	if len(out) == 1 {
		return out[0]
	}
	return bi("and", SBool, out...)
}

func Or(as ...*Term) *Term {
	var out []*Term
	seen := map[int]bool{}
	for _, a := range as {
		if a == False {
			continue
		}
		if a == True {
			return True
		}
		if a.Kind == KBuiltin && a.Op == "or" {
			for _, x := range a.Args {
				if !seen[x.id] {
					seen[x.id] = true
					out = append(out, x)
				}
			}
			continue
		}
		if !seen[a.id] {
			seen[a.id] = true
			out = append(out, a)
		}
	}
	if len(out) == 0 {
		return False
	}
	if len(out) == 1 {
		return out[0]
	}
	return bi("or", SBool, out...)
}

func Implies(a, b *Term) *Term {
	if a == True {
		return b
	}
	if a == False || b == True {
		return True
	}
	if b == False {
		return Not(a)
	}
	return bi("=>", SBool, a, b)
}

func Iff(a, b *Term) *Term { return Eq(a, b) }

func Eq(a, b *Term) *Term {
	if a == b {
		return True
	}
	if a.Sort != b.Sort {
		panic(fmt.Sprintf("Eq sort mismatch: %s:%s vs %s:%s", a.String(), a.Sort, b.String(), b.Sort))
	}
	if a.IsLit() && b.IsLit() {
		return BoolLit(a.Op == b.Op)
	}
	if a.Sort == SBool {
		if a == True {
			return b
		}
		if b == True {
			return a
		}
		if a == False {
			return Not(b)
		}
		if b == False {
			return Not(a)
		}
	}
	if a.id > b.id {
		a, b = b, a
	}
	return bi("=", SBool, a, b)
}

func Ne(a, b *Term) *Term { return Not(Eq(a, b)) }

func Ite(c, a, b *Term) *Term {
	if c == True {
		return a
	}
	if c == False {
		return b
	}
	if a == b {
		return a
	}
	if a.Sort == SBool {
		if a == True && b == False {
			return c
		}
		if a == False && b == True {
			return Not(c)
		}
	}
	return bi("ite", a.Sort, c, a, b)
}

func Add(a, b *Term) *Term {
	// a + (j - a) = j
	if b.Kind == KBuiltin && b.Op == "-" && len(b.Args) == 2 && b.Args[1] == a {
		return b.Args[0]
	}
	if a.Kind == KBuiltin && a.Op == "-" && len(a.Args) == 2 && a.Args[1] == b {
		return a.Args[0]
	}
	if x, ok := a.IntVal(); ok {
		if y, ok2 := b.IntVal(); ok2 {
			return IntLit(x + y)
		}
		if x == 0 {
			return b
		}
	}
	if y, ok := b.IntVal(); ok {
		if y == 0 {
			return a
		}
		// (a + c1) + c2
		if a.Kind == KBuiltin && a.Op == "+" && len(a.Args) == 2 {
			if c1, ok := a.Args[1].IntVal(); ok {
				return Add(a.Args[0], IntLit(c1+y))
			}
		}
		if y < 0 {
			return Sub(a, IntLit(-y))
		}
	}
	return bi("+", SInt, a, b)
}

func Sub(a, b *Term) *Term {
	if a == b {
		return IntLit(0)
	}
	if x, ok := a.IntVal(); ok {
		if y, ok2 := b.IntVal(); ok2 {
			return IntLit(x - y)
		}
	}
	if y, ok := b.IntVal(); ok {
		if y == 0 {
			return a
		}
		if a.Kind == KBuiltin && a.Op == "+" && len(a.Args) == 2 {
			if c1, ok := a.Args[1].IntVal(); ok {
				return Add(a.Args[0], IntLit(c1-y))
			}
		}
		if a.Kind == KBuiltin && a.Op == "-" && len(a.Args) == 2 {
			if c1, ok := a.Args[1].IntVal(); ok {
				return Sub(a.Args[0], IntLit(c1+y))
			}
		}
	}
	return bi("-", SInt, a, b)
}

func Mul(a, b *Term) *Term {
	if x, ok := a.IntVal(); ok {
		if y, ok2 := b.IntVal(); ok2 {
			return IntLit(x * y)
		}
		if x == 1 {
			return b
		}
		if x == 0 {
			return IntLit(0)
		}
	}
	if y, ok := b.IntVal(); ok {
		if y == 1 {
			return a
		}
		if y == 0 {
			return IntLit(0)
		}
	}
	return bi("*", SInt, a, b)
}

func Neg(a *Term) *Term { return Sub(IntLit(0), a) }

func Lt(a, b *Term) *Term {
	if x, ok := a.IntVal(); ok {
		if y, ok2 := b.IntVal(); ok2 {
			return BoolLit(x < y)
		}
	}
	if a == b {
		return False
	}
	return bi("<", SBool, a, b)
}
func Le(a, b *Term) *Term {
	if x, ok := a.IntVal(); ok {
		if y, ok2 := b.IntVal(); ok2 {
			return BoolLit(x <= y)
		}
	}
	if a == b {
		return True
	}
	return bi("<=", SBool, a, b)
}
func Gt(a, b *Term) *Term { return Lt(b, a) }
func Ge(a, b *Term) *Term { return Le(b, a) }

func Div(a, b *Term) *Term { return bi("div", SInt, a, b) }
func Mod(a, b *Term) *Term { return bi("mod", SInt, a, b) }

// allocSyms: references created by allocation; two distinct ones denote distinct objects.
var allocSyms = map[*Term]bool{}
var allocSymNames = map[string]bool{}

func Select(arr, idx *Term) *Term {
	_, el := arr.Sort.ArrParts()
	// read-over-write simplification when syntactically decidable
	cur := arr
	for cur.Kind == KBuiltin && cur.Op == "store" {
		if cur.Args[1] == idx {
			return cur.Args[2]
		}
		if cur.Args[1].IsLit() && idx.IsLit() {
			cur = cur.Args[0]
			continue
		}
		if allocSyms[cur.Args[1]] && allocSyms[idx] {
			cur = cur.Args[0]
			continue
		}
		break
	}
	return bi("select", el, cur, idx)
}

func Store(arr, idx, v *Term) *Term {
	_, el := arr.Sort.ArrParts()
	if el != v.Sort {
		panic(fmt.Sprintf("Store sort mismatch: array %s value %s:%s", arr.Sort, v.String(), v.Sort))
	}
	if arr.Kind == KBuiltin && arr.Op == "store" && arr.Args[1] == idx {
		arr = arr.Args[0]
	}
	return bi("store", arr.Sort, arr, idx, v)
}

func ConstArray(sort Sort, v *Term) *Term {
	return TC.mk(KBuiltin, "constarr", sort, []*Term{v}, nil, nil)
}

func Forall(bound []*Term, body *Term, pats ...*Term) *Term {
	if body == True {
		return True
	}
	if !body.hasBV {
		return body
	}
	// flatten directly nested universal quantifiers (the inner trigger covers all variables)
	if body.Kind == KQuant && body.Op == "forall" {
		// union of the triggers must mention every bound variable
		all := append(append([]*Term{}, pats...), body.Pats...)
		vars := append(append([]*Term{}, bound...), body.Bound...)
		covered := true
		for _, v := range vars {
			found := false
			for _, p := range all {
				if mentions(p, v) {
					found = true
				}
			}
			if !found {
				covered = false
			}
		}
		if covered && len(all) > 0 {
			return TC.mk(KQuant, "forall", SBool, body.Args, vars, all)
		}
		if len(pats) == 0 && len(body.Pats) == 0 {
			return TC.mk(KQuant, "forall", SBool, body.Args, vars, nil)
		}
	}
	return TC.mk(KQuant, "forall", SBool, []*Term{body}, bound, pats)
}

func mentions(t, v *Term) bool {
	if t == v {
		return true
	}
	if !t.hasBV {
		return false
	}
	for _, a := range t.Args {
		if mentions(a, v) {
			return true
		}
	}
	return false
}

// GlobalAxioms are added to a query only when one of their function symbols occurs in it.
type GlobalAxiom struct {
	Name string
	T    *Term
	Funs map[string]bool
}

var GlobalAxioms []*GlobalAxiom

func termFuns(t *Term, out map[string]bool, seen map[*Term]bool) {
	if seen[t] {
		return
	}
	seen[t] = true
	if t.Kind == KApp {
		out[t.Op] = true
	}
	for _, a := range t.Args {
		termFuns(a, out, seen)
	}
}

func relevantAxioms(roots []*Term) []*Term {
	used := map[string]bool{}
	seen := map[*Term]bool{}
	for _, r := range roots {
		termFuns(r, used, seen)
	}
	var out []*Term
	added := map[*GlobalAxiom]bool{}
	for changed := true; changed; {
		changed = false
		for _, ax := range GlobalAxioms {
			if added[ax] {
				continue
			}
			hit := false
			for f := range ax.Funs {
				if used[f] && strings.HasPrefix(f, "spec.") {
					hit = true
				}
			}
			if hit {
				added[ax] = true
				out = append(out, ax.T)
				termFuns(ax.T, used, seen)
				changed = true
			}
		}
	}
	return out
}

func Exists(bound []*Term, body *Term, pats ...*Term) *Term {
	if !body.hasBV {
		return body
	}
	return TC.mk(KQuant, "exists", SBool, []*Term{body}, bound, pats)
}

// Subst replaces symbols/bound vars according to m (keyed by term id).
func Subst(t *Term, m map[*Term]*Term) *Term {
	memo := map[*Term]*Term{}
	var rec func(t *Term) *Term
	rec = func(t *Term) *Term {
		if r, ok := m[t]; ok {
			return r
		}
		if len(t.Args) == 0 {
			return t
		}
		if r, ok := memo[t]; ok {
			return r
		}
		args := make([]*Term, len(t.Args))
		changed := false
		for i, a := range t.Args {
			args[i] = rec(a)
			if args[i] != a {
				changed = true
			}
		}
		var r *Term
		if !changed {
			r = t
		} else {
			r = rebuild(t, args)
		}
		memo[t] = r
		return r
	}
	return rec(t)
}

func rebuild(t *Term, args []*Term) *Term {
	switch t.Kind {
	case KBuiltin:
		switch t.Op {
		case "and":
			return And(args...)
		case "or":
			return Or(args...)
		case "not":
			return Not(args[0])
		case "=>":
			return Implies(args[0], args[1])
		case "=":
			return Eq(args[0], args[1])
		case "ite":
			return Ite(args[0], args[1], args[2])
		case "+":
			return Add(args[0], args[1])
		case "-":
			return Sub(args[0], args[1])
		case "*":
			return Mul(args[0], args[1])
		case "<":
			return Lt(args[0], args[1])
		case "<=":
			return Le(args[0], args[1])
		case "select":
			return Select(args[0], args[1])
		case "store":
			return Store(args[0], args[1], args[2])
		}
		return TC.mk(KBuiltin, t.Op, t.Sort, args, nil, nil)
	case KApp:
		return mkApp(t.Op, t.Sort, args)
	case KQuant:
		pats := make([]*Term, len(t.Pats))
		copy(pats, t.Pats)
		return TC.mk(KQuant, t.Op, t.Sort, args, t.Bound, pats)
	}
	return TC.mk(t.Kind, t.Op, t.Sort, args, t.Bound, t.Pats)
}

// mkApp applies string-theory rewrites for the string functions.
func mkApp(name string, ret Sort, args []*Term) *Term {
	switch name {
	case "scat":
		return SCat(args[0], args[1])
	case "slen":
		return SLen(args[0])
	}
	return TC.mk(KApp, name, ret, args, nil, nil)
}

// ---------- printing ----------

func (t *Term) String() string {
	var sb strings.Builder
	printTerm(&sb, t, nil)
	return sb.String()
}

func smtInt(op string) string {
	if strings.HasPrefix(op, "-") {
		return "(- " + op[1:] + ")"
	}
	return op
}

func printTerm(sb *strings.Builder, t *Term, named map[*Term]string) {
	if named != nil {
		if n, ok := named[t]; ok {
			sb.WriteString(n)
			return
		}
	}
	switch t.Kind {
	case KConst:
		if t.Sort == SInt {
			sb.WriteString(smtInt(t.Op))
		} else {
			sb.WriteString(t.Op)
		}
	case KSym:
		sb.WriteString(quoteSym(t.Op))
	case KBVar:
		sb.WriteString(quoteSym(t.Op))
	case KApp:
		sb.WriteByte('(')
		sb.WriteString(quoteSym(t.Op))
		for _, a := range t.Args {
			sb.WriteByte(' ')
			printTerm(sb, a, named)
		}
		sb.WriteByte(')')
	case KBuiltin:
		if t.Op == "constarr" {
			sb.WriteString("((as const " + string(t.Sort) + ") ")
			printTerm(sb, t.Args[0], named)
			sb.WriteByte(')')
			return
		}
		sb.WriteByte('(')
		sb.WriteString(t.Op)
		for _, a := range t.Args {
			sb.WriteByte(' ')
			printTerm(sb, a, named)
		}
		sb.WriteByte(')')
	case KQuant:
		sb.WriteString("(" + t.Op + " (")
		for _, b := range t.Bound {
			sb.WriteString("(" + quoteSym(b.Op) + " " + string(b.Sort) + ")")
		}
		sb.WriteString(") ")
		if len(t.Pats) > 0 {
			sb.WriteString("(! ")
		}
		printTerm(sb, t.Args[0], named)
		if len(t.Pats) > 0 {
			sb.WriteString(" :pattern (")
			for i, p := range t.Pats {
				if i > 0 {
					sb.WriteByte(' ')
				}
				printTerm(sb, p, named)
			}
			sb.WriteString("))")
		}
		sb.WriteByte(')')
	}
}

func quoteSym(s string) string {
	for _, r := range s {
		if !(r >= 'a' && r <= 'z' || r >= 'A' && r <= 'Z' || r >= '0' && r <= '9' || r == '_' || r == '.' || r == '$' || r == '!' || r == '@') {
			return "|" + s + "|"
		}
	}
	return s
}

// collect gathers symbols, functions and subterm ref counts reachable from roots.
type collector struct {
	seen  map[*Term]int
	order []*Term
	syms  map[string]Sort
	funs  map[string]*FunDecl
}

func newCollector() *collector {
	return &collector{seen: map[*Term]int{}, syms: map[string]Sort{}, funs: map[string]*FunDecl{}}
}

func (c *collector) visit(t *Term) {
	c.seen[t]++
	if c.seen[t] > 1 {
		return
	}
	switch t.Kind {
	case KSym:
		c.syms[t.Op] = t.Sort
	case KApp:
		c.funs[t.Op] = TC.funs[t.Op]
	}
	for _, a := range t.Args {
		c.visit(a)
	}
	for _, p := range t.Pats {
		c.visit(p)
	}
	c.order = append(c.order, t) // post-order
}

// Query renders a complete SMT-LIB script: assumptions and the negated goal.
type Query struct {
	Assumps []*Term
	Goal    *Term // to be proved under Assumps; nil = check satisfiability of Assumps
	Comment string
	NoLogic bool
}

func (q *Query) Render(getModel bool, modelTerms []*Term) string {
	var sb strings.Builder
	if q.Comment != "" {
		for _, l := range strings.Split(q.Comment, "\n") {
			sb.WriteString("; " + l + "\n")
		}
	}
	roots := append([]*Term{}, q.Assumps...)
	var negGoal *Term
	if q.Goal != nil {
		negGoal = Not(q.Goal)
		roots = append(roots, negGoal)
	}
	roots = append(roots, relevantAxioms(roots)...)
	roots = append(roots, orderAxioms(roots)...)
	// theory instantiation for strings etc.
	roots = append(roots, theoryAxioms(roots)...)
	c := newCollector()
	for _, r := range roots {
		c.visit(r)
	}
	for _, m := range modelTerms {
		c.visit(m)
	}
	sb.WriteString("(set-option :produce-models true)\n")
	sb.WriteString("(set-logic ALL)\n")
	sb.WriteString("(declare-sort Str 0)\n")
	symNames := make([]string, 0, len(c.syms))
	for n := range c.syms {
		symNames = append(symNames, n)
	}
	sort.Strings(symNames)
	for _, n := range symNames {
		sb.WriteString("(declare-fun " + quoteSym(n) + " () " + string(c.syms[n]) + ")\n")
	}
	funNames := make([]string, 0, len(c.funs))
	for n := range c.funs {
		funNames = append(funNames, n)
	}
	sort.Strings(funNames)
	for _, n := range funNames {
		f := c.funs[n]
		sb.WriteString("(declare-fun " + quoteSym(n) + " (")
		for i, a := range f.Args {
			if i > 0 {
				sb.WriteByte(' ')
			}
			sb.WriteString(string(a))
		}
		sb.WriteString(") " + string(f.Ret) + ")\n")
	}
	// shared subterms -> define-fun
	named := map[*Term]string{}
	n := 0
	for _, t := range c.order {
		if c.seen[t] > 1 && len(t.Args) > 0 && !t.hasBV && t.Kind != KQuant {
			n++
			name := fmt.Sprintf("$t%d", n)
			sb.WriteString("(define-fun " + name + " () " + string(t.Sort) + " ")
			printTermTop(&sb, t, named)
			sb.WriteString(")\n")
			named[t] = name
		}
	}
	// references created by allocation denote pairwise distinct objects
	var allocNames []string
	for _, n := range symNames {
		if allocSymNames[n] {
			allocNames = append(allocNames, quoteSym(n))
		}
	}
	if len(allocNames) > 1 {
		sb.WriteString("(assert (distinct " + strings.Join(allocNames, " ") + "))\n")
	}
	for _, a := range roots {
		if a == True {
			continue
		}
		sb.WriteString("(assert ")
		printTerm(&sb, a, named)
		sb.WriteString(")\n")
	}
	sb.WriteString("(check-sat)\n")
	if getModel {
		if len(modelTerms) > 0 {
			sb.WriteString("(get-value (")
			for _, m := range modelTerms {
				printTerm(&sb, m, named)
				sb.WriteByte(' ')
			}
			sb.WriteString("))\n")
		} else {
			sb.WriteString("(get-model)\n")
		}
	}
	return sb.String()
}

// printTermTop prints t itself expanded (not by its own name) but children by name.
func printTermTop(sb *strings.Builder, t *Term, named map[*Term]string) {
	saved, had := named[t]
	if had {
		delete(named, t)
	}
	printTerm(sb, t, named)
	if had {
		named[t] = saved
	}
}

// termSize counts DAG nodes.
func termSize(ts []*Term) int {
	seen := map[*Term]bool{}
	var rec func(t *Term)
	rec = func(t *Term) {
		if seen[t] {
			return
		}
		seen[t] = true
		for _, a := range t.Args {
			rec(a)
		}
	}
	for _, t := range ts {
		rec(t)
	}
	return len(seen)
}

// orderAxioms: string order (strlt) is a strict total order; stated with triggers when the
// query mentions strlt under a quantifier (ground uses get instances from theoryAxioms).
func orderAxioms(roots []*Term) []*Term {
	need := false
	seen := map[*Term]bool{}
	var rec func(t *Term)
	rec = func(t *Term) {
		if seen[t] || need {
			return
		}
		seen[t] = true
		if t.Kind == KApp && t.Op == "strlt" && t.hasBV {
			need = true
			return
		}
		for _, a := range t.Args {
			rec(a)
		}
	}
	for _, r := range roots {
		rec(r)
	}
	if !need {
		return nil
	}
	x := BVar("x", SStr)
	y := BVar("y", SStr)
	lt := App("strlt", SBool, x, y)
	gt := App("strlt", SBool, y, x)
	return []*Term{
		Forall([]*Term{x, y}, And(Not(And(lt, gt)), Implies(Eq(x, y), Not(lt)), Implies(Ne(x, y), Or(lt, gt))), lt),
	}
}

// ---------------- opaque predicates ----------------
//
// A quantified conjunct of an `opaque` define is replaced by an application F(leaves) of a
// fresh predicate symbol to the maximal subterms that do not mention the conjunct's own
// bound variables, together with the definitional axiom
//     forall p. F(p) = skeleton(p)          (trigger F(p))
// which is a conservative extension.  Two evaluations of the same define in different heap
// states share F, so the solver proves preservation by congruence once the leaves are equal
// and unfolds the body only where it has to.

var opaqueFuns = map[string]string{} // skeleton text -> function name
var opaqueCount = map[string]int{}

func makeOpaque(name string, t *Term) *Term {
	if t.Kind == KBuiltin && t.Op == "and" {
		var out []*Term
		for _, a := range t.Args {
			out = append(out, makeOpaque(name, a))
		}
		return And(out...)
	}
	if t.Kind != KQuant || t.Op != "forall" {
		return t
	}
	// split forall x. (A && B)
	if b := t.Args[0]; b.Kind == KBuiltin && b.Op == "=>" && len(b.Args) == 2 && b.Args[1].Kind == KBuiltin && b.Args[1].Op == "and" {
		var out []*Term
		for _, c := range b.Args[1].Args {
			out = append(out, makeOpaque(name, TC.mk(KQuant, "forall", SBool, []*Term{Implies(b.Args[0], c)}, t.Bound, t.Pats)))
		}
		return And(out...)
	}
	inner := map[*Term]bool{}
	var innerOrder []*Term
	var collect func(u *Term, seen map[*Term]bool)
	collect = func(u *Term, seen map[*Term]bool) {
		if seen[u] {
			return
		}
		seen[u] = true
		if u.Kind == KQuant {
			for _, b := range u.Bound {
				if !inner[b] {
					inner[b] = true
					innerOrder = append(innerOrder, b)
				}
			}
			for _, p := range u.Pats {
				collect(p, seen)
			}
		}
		for _, a := range u.Args {
			collect(a, seen)
		}
	}
	collect(t, map[*Term]bool{})
	memo := map[*Term]bool{}
	var mentionsInner func(u *Term) bool
	mentionsInner = func(u *Term) bool {
		if inner[u] {
			return true
		}
		if !u.hasBV {
			return false
		}
		if v, ok := memo[u]; ok {
			return v
		}
		r := false
		for _, a := range u.Args {
			if mentionsInner(a) {
				r = true
				break
			}
		}
		if !r && u.Kind == KQuant {
			r = true
		}
		memo[u] = r
		return r
	}
	var leaves []*Term
	sub := map[*Term]*Term{}
	var find func(u *Term)
	find = func(u *Term) {
		if _, done := sub[u]; done {
			return
		}
		if !mentionsInner(u) {
			if u.IsLit() || (u.Kind == KSym && (strings.HasPrefix(u.Op, "lit@") || u.Op == "$type")) {
				return
			}
			p := TC.mk(KBVar, fmt.Sprintf("$p%d", len(leaves)), u.Sort, nil, nil, nil)
			sub[u] = p
			leaves = append(leaves, u)
			return
		}
		for _, a := range u.Args {
			find(a)
		}
		if u.Kind == KQuant {
			for _, p := range u.Pats {
				find(p)
			}
		}
	}
	find(t)
	if len(leaves) == 0 {
		return t
	}
	for i, b := range innerOrder {
		sub[b] = TC.mk(KBVar, fmt.Sprintf("$b%d", i), b.Sort, nil, nil, nil)
	}
	skel := addAutoPats(substPats(t, sub))
	var sb strings.Builder
	printTerm(&sb, skel, map[*Term]string{})
	key := sb.String()
	fname, ok := opaqueFuns[key]
	var params []*Term
	for _, l := range leaves {
		params = append(params, sub[l])
	}
	if !ok {
		opaqueCount[name]++
		fname = fmt.Sprintf("spec.opq.%s.%d", name, opaqueCount[name])
		opaqueFuns[key] = fname
		app := App(fname, SBool, params...)
		ax := TC.mk(KQuant, "forall", SBool, []*Term{Eq(app, skel)}, params, []*Term{app})
		GlobalAxioms = append(GlobalAxioms, &GlobalAxiom{Name: fname, T: ax, Funs: map[string]bool{fname: true}})
	}
	return App(fname, SBool, leaves...)
}

// substPats is Subst that also rewrites quantifier triggers.
func substPats(t *Term, m map[*Term]*Term) *Term {
	memo := map[*Term]*Term{}
	var rec func(t *Term) *Term
	rec = func(t *Term) *Term {
		if r, ok := m[t]; ok {
			return r
		}
		if len(t.Args) == 0 {
			return t
		}
		if r, ok := memo[t]; ok {
			return r
		}
		args := make([]*Term, len(t.Args))
		for i, a := range t.Args {
			args[i] = rec(a)
		}
		var r *Term
		if t.Kind == KQuant {
			pats := make([]*Term, len(t.Pats))
			for i, p := range t.Pats {
				pats[i] = rec(p)
			}
			bound := make([]*Term, len(t.Bound))
			for i, b := range t.Bound {
				bound[i] = b
				if nb, ok := m[b]; ok {
					bound[i] = nb
				}
			}
			r = TC.mk(KQuant, t.Op, t.Sort, args, bound, pats)
		} else {
			r = rebuild(t, args)
		}
		memo[t] = r
		return r
	}
	return rec(t)
}

// addAutoPats gives trigger-less single-variable universal quantifiers an automatic trigger.
func addAutoPats(t *Term) *Term {
	memo := map[*Term]*Term{}
	var rec func(t *Term) *Term
	rec = func(t *Term) *Term {
		if len(t.Args) == 0 {
			return t
		}
		if r, ok := memo[t]; ok {
			return r
		}
		args := make([]*Term, len(t.Args))
		for i, a := range t.Args {
			args[i] = rec(a)
		}
		var r *Term
		if t.Kind == KQuant {
			pats := t.Pats
			if t.Op == "forall" && len(pats) == 0 && len(t.Bound) == 1 {
				pats = autoPatterns(t.Bound[0], args[0])
			}
			r = TC.mk(KQuant, t.Op, t.Sort, args, t.Bound, pats)
		} else {
			r = rebuild(t, args)
		}
		memo[t] = r
		return r
	}
	return rec(t)
}
