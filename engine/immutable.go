package main

// Fields declared `immutable` in a //@ type block: (1) a package-wide syntactic check that
// every store to the field targets an object allocated in the same function (constructor
// pattern); (2) havoc keeps their values for objects that already exist.

import (
	"fmt"
	"go/types"
	"sort"
	"strings"

	"golang.org/x/tools/go/ssa"
)

func (e *Engine) checkImmutables(fnIndex map[string]*ssa.Function) {
	e.tracked = map[string]bool{}
	for _, td := range e.db.Tracked {
		applies := len(td.Props) == 0
		for _, p := range td.Props {
			if p == e.prop {
				applies = true
			}
		}
		if applies {
			for _, t := range td.Types {
				e.tracked[t] = true
			}
		}
	}
	var keys []string
	for k := range e.db.Types {
		keys = append(keys, k)
	}
	sort.Strings(keys)
	for _, k := range keys {
		ts := e.db.Types[k]
		e.checkPrivate(ts, fnIndex)
		for _, g := range ts.Guards {
			if g.Lock != "immutable" && g.Lock != "stable" {
				continue
			}
			// find the named type
			var named *types.Named
			for _, p := range e.prog.AllPackages() {
				if p.Pkg.Path() == ts.Pkg {
					if obj := p.Pkg.Scope().Lookup(ts.Name); obj != nil {
						named, _ = obj.Type().(*types.Named)
					}
				}
			}
			if named == nil {
				continue // package not loaded for this property
			}
			st, ok := named.Underlying().(*types.Struct)
			if !ok {
				continue
			}
			idx := -1
			for i := 0; i < st.NumFields(); i++ {
				if st.Field(i).Name() == g.Field {
					idx = i
				}
			}
			name := fmt.Sprintf("%s/%s.%s/immutable#%s", e.prop, shortPkg(ts.Pkg), ts.Name, g.Field)
			ob := &Obligation{Name: name, Func: shortPkg(ts.Pkg) + "." + ts.Name, Kind: "immutable", Desc: "field " + g.Field + " is only stored to in the function that allocates the object"}
			if g.Lock == "stable" {
				ob.Desc = "field " + g.Field + " is stored to only by its own package"
				e.stableFields = append(e.stableFields, ts.Pkg+"."+ts.Name+"."+g.Field)
			}
			if idx < 0 {
				ob.VCs = []*VC{{Goal: False, From: "syntactic"}}
				ob.Desc = "immutable field " + g.Field + " does not exist (contract-target-missing)"
			} else {
				hn, ft := heapKeyStruct(named, []int{idx})
				for _, l := range layout(ft) {
					e.immutableHeap[hn+l.Suffix] = true
					stableHeapNames[hn+l.Suffix] = true
					if g.Lock == "stable" {
						stableOwner[hn+l.Suffix] = ts.Pkg
					}
				}
				var bad []string
				for key, fn := range fnIndex {
					inPkg := strings.HasPrefix(key, ts.Pkg+".") && !strings.Contains(strings.TrimPrefix(key, ts.Pkg+"."), "/")
					if g.Lock == "stable" {
						// stable: only the declaring package writes the field (callbacks and other
						// packages are assumed not to re-enter the writers; listed as assumption)
						if inPkg {
							continue
						}
					} else if !inPkg {
						continue
					}
					bad = append(bad, immutableViolations(fn, named, idx)...)
					for _, af := range fn.AnonFuncs {
						bad = append(bad, immutableViolations(af, named, idx)...)
					}
				}
				sort.Strings(bad)
				if len(bad) > 0 {
					ob.VCs = []*VC{{Goal: False, From: "syntactic"}}
					ob.Desc += "; violated at " + strings.Join(bad, ", ")
					ob.Pos = bad[0]
				}
			}
			e.obls[name] = ob
			e.order = append(e.order, name)
		}
	}
}

func immutableViolations(fn *ssa.Function, named *types.Named, idx int) []string {
	var bad []string
	for _, b := range fn.Blocks {
		for _, in := range b.Instrs {
			st, ok := in.(*ssa.Store)
			if !ok {
				continue
			}
			fa, ok := st.Addr.(*ssa.FieldAddr)
			if !ok || fa.Field != idx {
				continue
			}
			pt, ok := fa.X.Type().Underlying().(*types.Pointer)
			if !ok || !types.Identical(pt.Elem(), named) {
				continue
			}
			if _, isAlloc := fa.X.(*ssa.Alloc); isAlloc {
				continue
			}
			pos := fn.Prog.Fset.Position(st.Pos())
			f := pos.Filename
			if i := strings.Index(f, "/repo/"); i >= 0 {
				f = f[i+6:]
			}
			bad = append(bad, fmt.Sprintf("%s:%d", f, pos.Line))
		}
	}
	return bad
}

// checkPrivate: `private f`: the field (and the contents of a map stored in it) is written
// only by functions of the declaring package (syntactic check over the loaded program); such
// components are not havoced by calls into other packages or through interfaces (A-PRIV).
func (e *Engine) checkPrivate(ts *TypeSpec, fnIndex map[string]*ssa.Function) {
	for _, f := range ts.Private {
		var named *types.Named
		for _, p := range e.prog.AllPackages() {
			if p.Pkg.Path() == ts.Pkg {
				if obj := p.Pkg.Scope().Lookup(ts.Name); obj != nil {
					named, _ = obj.Type().(*types.Named)
				}
			}
		}
		if named == nil {
			continue
		}
		st, ok := named.Underlying().(*types.Struct)
		if !ok {
			continue
		}
		if strings.Contains(f, ".") {
			// a path through embedded struct values: every component must be unexported, so
			// that Go's visibility rules confine all stores to the declaring package
			name := fmt.Sprintf("%s/%s.%s/private#%s", e.prop, shortPkg(ts.Pkg), ts.Name, f)
			ob := &Obligation{Name: name, Func: shortPkg(ts.Pkg) + "." + ts.Name, Kind: "immutable", Desc: "field path " + f + " (and its map contents) is unexported: written only by package " + shortPkg(ts.Pkg)}
			var path []int
			var cur types.Type = named
			okPath := true
			for _, comp := range strings.Split(f, ".") {
				cs, isStruct := cur.Underlying().(*types.Struct)
				found := -1
				if isStruct {
					for i := 0; i < cs.NumFields(); i++ {
						if cs.Field(i).Name() == comp {
							found = i
						}
					}
				}
				if found < 0 || cs.Field(found).Exported() {
					okPath = false
					break
				}
				path = append(path, found)
				cur = cs.Field(found).Type()
			}
			if !okPath {
				ob.VCs = []*VC{{Goal: False, From: "syntactic"}}
				ob.Desc += " (contract-target-missing or exported component)"
			} else {
				hn, ft := heapKeyStruct(named, path)
				for _, l := range layout(ft) {
					stableHeapNames[hn+l.Suffix] = true
					e.immutableHeap[hn+l.Suffix] = true
					stableOwner[hn+l.Suffix] = ts.Pkg
				}
				if mt, isMap := ft.Underlying().(*types.Map); isMap {
					if _, ok := mapSorts(mt); ok {
						mn := mapHeapName(mt)
						stableHeapNames[mn+"#dom"] = true
						stableOwner[mn+"#dom"] = ts.Pkg
						for _, l := range layout(mt.Elem()) {
							stableHeapNames[mn+"#val"+l.Suffix] = true
							stableOwner[mn+"#val"+l.Suffix] = ts.Pkg
						}
						var bad []string
						for key, fn := range fnIndex {
							if strings.HasPrefix(key, ts.Pkg+".") && !strings.Contains(strings.TrimPrefix(key, ts.Pkg+"."), "/") {
								continue
							}
							for _, b := range fn.Blocks {
								for _, in := range b.Instrs {
									if mu, ok := in.(*ssa.MapUpdate); ok && types.Identical(mu.Map.Type().Underlying(), mt) {
										bad = append(bad, e.posStr(mu.Pos()))
									}
								}
							}
						}
						if len(bad) > 0 {
							ob.VCs = []*VC{{Goal: False, From: "syntactic"}}
							ob.Desc += "; maps of this type are updated at " + strings.Join(bad, ", ")
						}
					}
				}
			}
			e.obls[name] = ob
			e.order = append(e.order, name)
			continue
		}
		idx := -1
		for i := 0; i < st.NumFields(); i++ {
			if st.Field(i).Name() == f {
				idx = i
			}
		}
		name := fmt.Sprintf("%s/%s.%s/private#%s", e.prop, shortPkg(ts.Pkg), ts.Name, f)
		ob := &Obligation{Name: name, Func: shortPkg(ts.Pkg) + "." + ts.Name, Kind: "immutable", Desc: "field " + f + " (and its map contents) is written only by package " + shortPkg(ts.Pkg)}
		if idx < 0 {
			ob.VCs = []*VC{{Goal: False, From: "syntactic"}}
		} else {
			hn, ft := heapKeyStruct(named, []int{idx})
			for _, l := range layout(ft) {
				stableHeapNames[hn+l.Suffix] = true
				e.immutableHeap[hn+l.Suffix] = true
				stableOwner[hn+l.Suffix] = ts.Pkg
			}
			var bad []string
			if mt, isMap := ft.Underlying().(*types.Map); isMap {
				if _, ok := mapSorts(mt); ok {
					mn := mapHeapName(mt)
					stableHeapNames[mn+"#dom"] = true
					stableOwner[mn+"#dom"] = ts.Pkg
					for _, l := range layout(mt.Elem()) {
						stableHeapNames[mn+"#val"+l.Suffix] = true
						stableOwner[mn+"#val"+l.Suffix] = ts.Pkg
					}
					// no other package may update a map of this type
					for key, fn := range fnIndex {
						if strings.HasPrefix(key, ts.Pkg+".") && !strings.Contains(strings.TrimPrefix(key, ts.Pkg+"."), "/") {
							continue
						}
						for _, b := range fn.Blocks {
							for _, in := range b.Instrs {
								if mu, ok := in.(*ssa.MapUpdate); ok && types.Identical(mu.Map.Type().Underlying(), mt) {
									bad = append(bad, e.posStr(mu.Pos()))
								}
							}
						}
					}
				}
			}
			for key, fn := range fnIndex {
				if strings.HasPrefix(key, ts.Pkg+".") && !strings.Contains(strings.TrimPrefix(key, ts.Pkg+"."), "/") {
					continue
				}
				bad = append(bad, immutableViolations(fn, named, idx)...)
			}
			if len(bad) > 0 {
				ob.VCs = []*VC{{Goal: False, From: "syntactic"}}
				ob.Desc += "; violated at " + strings.Join(bad, ", ")
			}
		}
		e.obls[name] = ob
		e.order = append(e.order, name)
	}
}
