package main

// Typed symbolic values: every Go value is a list of SMT leaves given by layout(type).

import (
	"fmt"
	"go/types"
	"strings"

	"golang.org/x/tools/go/ssa"
)

const repoPrefix = "github.com/goatcms/goatcore"

type Leaf struct {
	Suffix string
	Sort   Sort
	T      types.Type // Go type of the leaf when it is a basic value (for range facts); nil otherwise
	Role   string     // "", "len", "cap", "off", "arr", "tag", "val", "ref"
}

var layoutCache = map[types.Type][]Leaf{}

func isRepoNamed(t types.Type) bool {
	if n, ok := t.(*types.Named); ok {
		if n.Obj().Pkg() != nil && strings.HasPrefix(n.Obj().Pkg().Path(), repoPrefix) {
			return true
		}
	}
	return false
}

// transparentStruct reports whether struct values of this type are flattened into their fields.
func transparentStruct(t types.Type) (*types.Struct, bool) {
	st, ok := t.Underlying().(*types.Struct)
	if !ok {
		return nil, false
	}
	if _, named := t.(*types.Named); named && !isRepoNamed(t) {
		return nil, false // external struct types are opaque (time.Time, sync.Mutex, ...)
	}
	return st, true
}

func layout(t types.Type) []Leaf {
	if l, ok := layoutCache[t]; ok {
		return l
	}
	var out []Leaf
	switch u := t.Underlying().(type) {
	case *types.Basic:
		switch {
		case u.Info()&types.IsBoolean != 0:
			out = []Leaf{{"", SBool, t, ""}}
		case u.Info()&types.IsString != 0:
			out = []Leaf{{"", SStr, t, ""}}
		case u.Info()&types.IsInteger != 0:
			out = []Leaf{{"", SInt, t, ""}}
		default: // floats, complex, unsafe pointer, untyped nil
			out = []Leaf{{"", SInt, nil, "opaque"}}
		}
	case *types.Pointer, *types.Map, *types.Chan, *types.Signature:
		out = []Leaf{{"", SInt, nil, "ref"}}
	case *types.Slice:
		out = []Leaf{{"#arr", SInt, nil, "arr"}, {"#off", SInt, nil, "off"}, {"#len", SInt, nil, "len"}, {"#cap", SInt, nil, "cap"}}
	case *types.Interface:
		out = []Leaf{{"#tag", SInt, nil, "tag"}, {"#val", SInt, nil, "val"}}
	case *types.Struct:
		if st, ok := transparentStruct(t); ok {
			for i := 0; i < st.NumFields(); i++ {
				f := st.Field(i)
				for _, l := range layout(f.Type()) {
					out = append(out, Leaf{"." + f.Name() + l.Suffix, l.Sort, l.T, l.Role})
				}
			}
			if len(out) == 0 {
				out = []Leaf{{"", SInt, nil, "opaque"}}
			}
		} else {
			out = []Leaf{{"", SInt, nil, "opaque"}}
		}
	case *types.Array:
		out = []Leaf{{"", SInt, nil, "opaque"}}
	case *types.Tuple:
		panic("layout of tuple")
	default:
		out = []Leaf{{"", SInt, nil, "opaque"}}
	}
	layoutCache[t] = out
	return out
}

const (
	AObj  = iota // struct object (Base) + field path
	AElem        // element Idx of backing array Base
	ACell        // scalar cell Base
)

type Addr struct {
	Kind  int
	Base  *Term
	Root  types.Type // AObj: named/struct type of the object
	Path  []int      // AObj: field index path
	Idx   *Term      // AElem
	Elem  types.Type // pointee type
	Owner *Addr      // AElem: address of the field the slice header was loaded from
	ERoot types.Type // AElem/ACell into a struct element: the element (cell) struct type
	Sub   []int      // field path inside the element
}

// subLeaves returns the leaf range [start, start+n) of the field path inside root's layout.
func subLeaves(root types.Type, path []int) (start, n int, ft types.Type) {
	cur := root
	start = 0
	for _, i := range path {
		st := cur.Underlying().(*types.Struct)
		for j := 0; j < i; j++ {
			start += len(layout(st.Field(j).Type()))
		}
		cur = st.Field(i).Type()
	}
	return start, len(layout(cur)), cur
}

type FnVal struct {
	Fn       *ssa.Function
	Bindings []*Val // closure bindings
}

type Val struct {
	T   types.Type
	L   []*Term
	A   *Addr
	Fn  *FnVal
	Tup []*Val
	Src *Addr // provenance: the address this value was loaded from (for lock discipline)
}

func (v *Val) String() string {
	if v == nil {
		return "<nil>"
	}
	if v.Tup != nil {
		var ss []string
		for _, e := range v.Tup {
			ss = append(ss, e.String())
		}
		return "(" + strings.Join(ss, ", ") + ")"
	}
	var ss []string
	for _, l := range v.L {
		ss = append(ss, l.String())
	}
	return fmt.Sprintf("%s{%s}", typeStr(v.T), strings.Join(ss, ","))
}

func typeStr(t types.Type) string {
	return types.TypeString(t, func(p *types.Package) string { return p.Name() })
}

func scalar(t types.Type, term *Term) *Val { return &Val{T: t, L: []*Term{term}} }

func (v *Val) T0() *Term { return v.L[0] }

// slice accessors
func (v *Val) Arr() *Term { return v.L[0] }
func (v *Val) Off() *Term { return v.L[1] }
func (v *Val) Len() *Term { return v.L[2] }
func (v *Val) Cap() *Term { return v.L[3] }

// interface accessors
func (v *Val) Tag() *Term  { return v.L[0] }
func (v *Val) IVal() *Term { return v.L[1] }

func isSlice(t types.Type) bool { _, ok := t.Underlying().(*types.Slice); return ok }
func isIface(t types.Type) bool { _, ok := t.Underlying().(*types.Interface); return ok }
func isString(t types.Type) bool {
	b, ok := t.Underlying().(*types.Basic)
	return ok && b.Info()&types.IsString != 0
}
func isBool(t types.Type) bool {
	b, ok := t.Underlying().(*types.Basic)
	return ok && b.Info()&types.IsBoolean != 0
}
func isInteger(t types.Type) bool {
	b, ok := t.Underlying().(*types.Basic)
	return ok && b.Info()&types.IsInteger != 0
}
func isPointer(t types.Type) bool { _, ok := t.Underlying().(*types.Pointer); return ok }
func isMap(t types.Type) bool     { _, ok := t.Underlying().(*types.Map); return ok }

func intRange(t types.Type) (lo, hi string, ok bool) {
	b, isB := t.Underlying().(*types.Basic)
	if !isB {
		return "", "", false
	}
	switch b.Kind() {
	case types.Int, types.Int64, types.UntypedInt:
		return "-9223372036854775808", "9223372036854775807", true
	case types.Int32, types.UntypedRune:
		return "-2147483648", "2147483647", true
	case types.Int16:
		return "-32768", "32767", true
	case types.Int8:
		return "-128", "127", true
	case types.Uint, types.Uint64, types.Uintptr:
		return "0", "18446744073709551615", true
	case types.Uint32:
		return "0", "4294967295", true
	case types.Uint16:
		return "0", "65535", true
	case types.Uint8:
		return "0", "255", true
	}
	return "", "", false
}

// maxLen is the assumed bound on every slice/string length (A-MEM).
const maxLen = "281474976710656" // 2^48

// rangeFacts returns the type-invariant facts of a value (assumed for inputs and havoced values).
func rangeFacts(v *Val) []*Term {
	var out []*Term
	if v.Tup != nil {
		for _, e := range v.Tup {
			out = append(out, rangeFacts(e)...)
		}
		return out
	}
	ls := layout(v.T)
	for i, l := range ls {
		t := v.L[i]
		if t.IsLit() {
			continue
		}
		switch l.Role {
		case "len":
			out = append(out, Le(IntLit(0), t), Le(t, v.L[i+1]))
		case "cap":
			out = append(out, Le(t, BigLit(maxLen)))
		case "off":
			out = append(out, Le(IntLit(0), t))
		case "tag":
			out = append(out, Le(IntLit(0), t))
			// nil interface has a zero payload
			out = append(out, Implies(Eq(t, IntLit(0)), Eq(v.L[i+1], IntLit(0))))
		case "":
			if l.T != nil && l.Sort == SInt {
				if lo, hi, ok := intRange(l.T); ok {
					out = append(out, Le(BigLit(lo), t), Le(t, BigLit(hi)))
				}
			}
			if l.Sort == SStr {
				out = append(out, Le(SLen(t), BigLit(maxLen)))
			}
		}
	}
	return out
}

// freshVal creates a value of type t with fresh leaves named after hint.
func freshVal(t types.Type, hint string, stable bool) *Val {
	if tup, ok := t.(*types.Tuple); ok {
		v := &Val{T: t}
		for i := 0; i < tup.Len(); i++ {
			v.Tup = append(v.Tup, freshVal(tup.At(i).Type(), fmt.Sprintf("%s.%d", hint, i), stable))
		}
		return v
	}
	ls := layout(t)
	v := &Val{T: t}
	for _, l := range ls {
		if stable {
			v.L = append(v.L, Sym(hint+l.Suffix, l.Sort))
		} else {
			v.L = append(v.L, Fresh(hint+l.Suffix, l.Sort))
		}
	}
	return v
}

func zeroVal(t types.Type) *Val {
	if tup, ok := t.(*types.Tuple); ok {
		v := &Val{T: t}
		for i := 0; i < tup.Len(); i++ {
			v.Tup = append(v.Tup, zeroVal(tup.At(i).Type()))
		}
		return v
	}
	v := &Val{T: t}
	for _, l := range layout(t) {
		switch l.Sort {
		case SInt:
			v.L = append(v.L, IntLit(0))
		case SBool:
			v.L = append(v.L, False)
		case SStr:
			v.L = append(v.L, StrLit(""))
		default:
			panic("zeroVal sort " + string(l.Sort))
		}
	}
	return v
}

// retype keeps the leaves but changes the static type (ChangeType, conversions between
// identical layouts).
func retype(v *Val, t types.Type) *Val {
	nv := *v
	nv.T = t
	return &nv
}

func valEq(a, b *Val) *Term {
	if len(a.L) != len(b.L) {
		panic(fmt.Sprintf("valEq layout mismatch %s vs %s", a, b))
	}
	var cs []*Term
	for i := range a.L {
		cs = append(cs, Eq(a.L[i], b.L[i]))
	}
	return And(cs...)
}

// type tags for interface dynamic types
var typeTags = map[string]int64{}
var tagTypes = map[int64]types.Type{}

func typeTag(t types.Type) int64 {
	k := types.TypeString(t, nil)
	if v, ok := typeTags[k]; ok {
		return v
	}
	v := int64(len(typeTags) + 1)
	typeTags[k] = v
	tagTypes[v] = t
	return v
}

func heapKeyStruct(root types.Type, path []int) (string, types.Type) {
	name := typeStr(root)
	cur := root
	for _, i := range path {
		st := cur.Underlying().(*types.Struct)
		f := st.Field(i)
		name += "." + f.Name()
		cur = f.Type()
	}
	return name, cur
}
