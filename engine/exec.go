package main

// Symbolic executor over go/ssa: path-wise, cut at loop headers, one VC per obligation site and path.

import (
	"fmt"
	"go/token"
	"go/types"
	"os"
	"runtime/debug"
	"sort"
	"strconv"
	"strings"

	"golang.org/x/tools/go/ssa"
)

type VC struct {
	Assumps []*Term
	Goal    *Term
	From    string // "entry" or "loop N"
	Note    string
}

type Obligation struct {
	Name       string
	Func       string // pkg-qualified function key
	Kind       string
	Ord        int
	Desc       string
	Pos        string
	VCs        []*VC
	Clause     string
	Abstracted bool
	// results
	Status     string // discharged | refuted | unknown | trivial
	Solver     string
	Ms         int64
	MaxMs      int64 // slowest single query
	Model      string
	SMTFile    string
	Restricted string // known-finding restriction applied
}

type nameBind struct {
	v      *Val
	isAddr bool
}

type deferred struct {
	call *ssa.CallCommon
	args []*Val // evaluated at defer time (callee value first if dynamic)
	fnv  *Val
}

type Frame struct {
	fn           *ssa.Function
	regs         map[ssa.Value]*Val
	names        map[string]nameBind
	defers       []deferred
	cont         func(st *State, res []*Val)
	pcont        func(st *State) // panic continuation (nil: top-level handling)
	isTop        bool
	depth        int
	params       []*Val
	results      []*Val // set at return for top frame spec evaluation
	oldHeap      *Heap
	namedResults map[string]*Val
}

type Event struct {
	Name string
	Args []*Val
	Res  *Val
}

type Heap struct {
	m      map[string]*Term
	epoch  int
	poison map[string]bool // havoced before first access: first access yields a fresh array
}

var epochCounter int

// stableHeapNames: heap components of fields declared immutable or stable.
var stableHeapNames = map[string]bool{}

// stableOwner: for the components of `stable` and `private` fields (written only by their own
// package), the path of that package. A call to a known function of that package, or of a package
// that (transitively) imports it, may write them; calls elsewhere and callbacks may not.
var stableOwner = map[string]string{}

// havocPkg: the package of the known callee on whose behalf the heap is being havoced (nil for
// function values, interface calls and go statements)
var havocPkg *types.Package

// havocExcept: the components a `keeps stable except ...` callee may write
var havocExcept []string

func reachesPkg(from *types.Package, path string, seen map[*types.Package]bool) bool {
	if from == nil || seen[from] {
		return false
	}
	seen[from] = true
	if from.Path() == path {
		return true
	}
	for _, im := range from.Imports() {
		if reachesPkg(im, path, seen) {
			return true
		}
	}
	return false
}

func (h *Heap) snapshot() *Heap {
	n := &Heap{m: make(map[string]*Term, len(h.m)), epoch: h.epoch}
	for k, v := range h.m {
		n.m[k] = v
	}
	if len(h.poison) > 0 {
		n.poison = map[string]bool{}
		for k := range h.poison {
			n.poison[k] = true
		}
	}
	return n
}

func (h *Heap) get(name string, sort Sort) *Term {
	if t, ok := h.m[name]; ok {
		return t
	}
	var t *Term
	if stableHeapNames[name] {
		// immutable / stable components are never havoced: one symbol for the entry value
		t = Sym("H."+name, sort)
		h.m[name] = t
		return t
	}
	if h.poison[name] {
		t = Fresh("H."+name, sort)
	} else if h.epoch == 0 {
		t = Sym("H."+name, sort)
	} else {
		t = Sym(fmt.Sprintf("H.%s@%d", name, h.epoch), sort)
	}
	h.m[name] = t
	return t
}

type State struct {
	heap        *Heap
	pc          []*Term
	frames      []*Frame
	trace       []Event
	ghost       map[string]*Val // ghost bindings from trace ... bind
	locks       []*Term         // lock ids touched on this path
	fresh       map[*Term]bool  // refs allocated on this path
	from        string
	steps       int
	dead        bool
	callNames   map[string]nameBind
	prevHeap    *Heap
	exitChecked bool // the loop exit clauses of the path's loop have been checked
	prevNames   map[string]nameBind
	lockSnap    map[*Term]*Heap
	stackObjs   []stackObj
	visits      map[*ssa.BasicBlock]int
	escaped     map[*Term]bool // fresh references that were stored into the heap or passed to a call
}

type stackObj struct {
	ref   *Term
	names []string
}

func (st *State) clone() *State {
	n := &State{from: st.from, steps: st.steps, prevHeap: st.prevHeap, prevNames: st.prevNames, exitChecked: st.exitChecked}
	n.heap = st.heap.snapshot()
	n.pc = append([]*Term(nil), st.pc...)
	n.frames = make([]*Frame, len(st.frames))
	for i, f := range st.frames {
		nf := *f
		nf.regs = make(map[ssa.Value]*Val, len(f.regs))
		for k, v := range f.regs {
			nf.regs[k] = v
		}
		nf.names = make(map[string]nameBind, len(f.names))
		for k, v := range f.names {
			nf.names[k] = v
		}
		nf.defers = append([]deferred(nil), f.defers...)
		n.frames[i] = &nf
	}
	n.trace = append([]Event(nil), st.trace...)
	n.stackObjs = append([]stackObj(nil), st.stackObjs...)
	if st.escaped != nil {
		n.escaped = map[*Term]bool{}
		for k, v := range st.escaped {
			n.escaped[k] = v
		}
	}
	if st.visits != nil {
		n.visits = map[*ssa.BasicBlock]int{}
		for k, v := range st.visits {
			n.visits[k] = v
		}
	}
	n.ghost = make(map[string]*Val, len(st.ghost))
	for k, v := range st.ghost {
		n.ghost[k] = v
	}
	n.locks = append([]*Term(nil), st.locks...)
	if st.lockSnap != nil {
		n.lockSnap = map[*Term]*Heap{}
		for k, v := range st.lockSnap {
			n.lockSnap[k] = v
		}
	}
	n.fresh = make(map[*Term]bool, len(st.fresh))
	for k, v := range st.fresh {
		n.fresh[k] = v
	}
	return n
}

func (st *State) top() *Frame { return st.frames[len(st.frames)-1] }

func (st *State) assume(t *Term) {
	if t == True {
		return
	}
	if t == False {
		st.dead = true
		if os.Getenv("GOWP_DEBUG") != "" {
			fmt.Fprintf(os.Stderr, "debug: path dies (assume false)\n%s\n", debug.Stack())
		}
	}
	st.pc = append(st.pc, t)
}

// ---------------- engine ----------------

type PropConfig struct {
	ID     string
	Mode   string          // "seq" | "conc"
	Layers map[string]bool // safety, overflow, contract, lock, trace, frame
}

type Engine struct {
	prog          *ssa.Program
	pkgs          map[string]*ssa.Package
	db            *ContractDB
	prop          string
	cfg           *PropConfig
	obls          map[string]*Obligation
	order         []string
	abslog        []string
	abset         map[string]bool
	funcsDone     []string
	engineErrors  []string
	curAbstracted *bool
	passConc      bool // mode "both": second pass emits only lock-layer obligations
	both          bool
	immutableHeap map[string]bool // heap array names of fields declared immutable
	axiomsDone    bool
	unroll        int
	fnByShort     map[string]fnEntry
	replayCache   map[string]*replayResult
	lastParams    []*Val
	stableFields  []string
	tracked       map[string]bool              // tracked struct types (typeStr form) for this property
	baseLocals    map[string]map[string]string // baseline: function -> variable name -> signature
	curLocals     map[string]map[string]string
}

func (e *Engine) logAbs(format string, a ...interface{}) {
	s := fmt.Sprintf(format, a...)
	if e.abset == nil {
		e.abset = map[string]bool{}
	}
	if !e.abset[s] {
		e.abset[s] = true
		e.abslog = append(e.abslog, s)
	}
}

type fnCtx struct {
	alias         map[string]string // contract name of a renamed variable -> its current name
	evalHeader    *ssa.BasicBlock   // loop header whose clauses are being evaluated
	eng           *Engine
	fn            *ssa.Function
	con           *Contract
	key           string // pkgpath.FuncKey
	short         string // pkgname.FuncKey
	headers       map[*ssa.BasicBlock]int
	hdrList       []*ssa.BasicBlock
	atCallHit     map[*Clause]bool // at_call clauses whose pattern matched some call site
	reachedReturn bool             // some path (from the entry or a loop header) reached a normal return
	loopEnds      []token.Pos
	hasExit       bool
	siteOrd       map[ssa.Instruction]int
	paths         int
	writes        map[string]bool // heap arrays written anywhere in the function (for loop havoc)
	collecting    bool
	abstracted    bool
	maxPaths      int
	loopNames     map[*ssa.BasicBlock]map[string]nameBind
	unroll        int // > 0: bounded mode, loops unrolled (counterexample search only)
	lastParams    []*Val
	bindOutside   map[*TraceDecl]bool
	curBlock      *ssa.BasicBlock // top-frame position being executed (for write positions)
	curIdx        int
	writePos      map[string][]wpos
	curHeader     *ssa.BasicBlock // header the current path started from (nil: entry)
	loopBlk       map[*ssa.BasicBlock]map[*ssa.BasicBlock]bool
}

type wpos struct {
	b   *ssa.BasicBlock
	idx int
}

// loopBlocks returns the natural loop of header h.
func (x *fnCtx) loopBlocks(h *ssa.BasicBlock) map[*ssa.BasicBlock]bool {
	if x.loopBlk == nil {
		x.loopBlk = map[*ssa.BasicBlock]map[*ssa.BasicBlock]bool{}
	}
	if m, ok := x.loopBlk[h]; ok {
		return m
	}
	m := map[*ssa.BasicBlock]bool{h: true}
	var stack []*ssa.BasicBlock
	for _, p := range h.Preds {
		if h.Dominates(p) {
			stack = append(stack, p)
		}
	}
	for len(stack) > 0 {
		b := stack[len(stack)-1]
		stack = stack[:len(stack)-1]
		if m[b] {
			continue
		}
		m[b] = true
		for _, p := range b.Preds {
			stack = append(stack, p)
		}
	}
	x.loopBlk[h] = m
	return m
}

// writtenInLoop: is the heap component written inside the natural loop of h?
func (x *fnCtx) writtenInLoop(name string, h *ssa.BasicBlock) bool {
	if x.writes["*"] {
		return true
	}
	lb := x.loopBlocks(h)
	for _, p := range x.writePos[name] {
		if p.b == nil || lb[p.b] {
			return true
		}
	}
	return false
}

// writesDominate: every write of the component happens before position (b, idx) on every path.
func (x *fnCtx) writesDominate(name string, b *ssa.BasicBlock, idx int) bool {
	for _, p := range x.writePos[name] {
		if p.b == nil {
			return false
		}
		if p.b == b {
			if p.idx >= idx {
				return false
			}
			continue
		}
		if !p.b.Dominates(b) {
			return false
		}
	}
	return true
}

func funcKey(fn *ssa.Function) (pkg, key string) {
	if fn.Pkg != nil {
		pkg = fn.Pkg.Pkg.Path()
	} else if fn.Package() != nil {
		pkg = fn.Package().Pkg.Path()
	}
	if fn.Parent() != nil {
		// closure: Parent$N
		_, pk := funcKey(fn.Parent())
		name := fn.Name() // e.g. Try$1
		if i := strings.LastIndex(name, "$"); i >= 0 {
			return pkgOf(fn), pk + name[i:]
		}
		return pkgOf(fn), name
	}
	if recv := fn.Signature.Recv(); recv != nil {
		rt := recv.Type()
		star := ""
		if p, ok := rt.(*types.Pointer); ok {
			star = "*"
			rt = p.Elem()
		}
		if n, ok := rt.(*types.Named); ok {
			if n.Obj().Pkg() != nil {
				pkg = n.Obj().Pkg().Path()
			}
			if star != "" {
				return pkg, "(*" + n.Obj().Name() + ")." + fn.Name()
			}
			return pkg, n.Obj().Name() + "." + fn.Name()
		}
	}
	return pkg, fn.Name()
}

func pkgOf(fn *ssa.Function) string {
	for f := fn; f != nil; f = f.Parent() {
		if f.Pkg != nil {
			return f.Pkg.Pkg.Path()
		}
	}
	return ""
}

func shortPkg(p string) string {
	if i := strings.LastIndex(p, "/"); i >= 0 {
		return p[i+1:]
	}
	return p
}

func (e *Engine) posStr(p token.Pos) string {
	if !p.IsValid() {
		return ""
	}
	ps := e.prog.Fset.Position(p)
	f := ps.Filename
	if i := strings.Index(f, "/repo/"); i >= 0 {
		f = f[i+6:]
	}
	return fmt.Sprintf("%s:%d", f, ps.Line)
}

// findLoopHeaders detects natural loop headers (targets of back edges).
func findLoopHeaders(fn *ssa.Function) []*ssa.BasicBlock {
	var hs []*ssa.BasicBlock
	seen := map[*ssa.BasicBlock]bool{}
	for _, b := range fn.Blocks {
		for _, s := range b.Succs {
			if s.Dominates(b) && !seen[s] {
				seen[s] = true
				hs = append(hs, s)
			}
		}
	}
	sort.Slice(hs, func(i, j int) bool { return hs[i].Index < hs[j].Index })
	return hs
}

func siteKind(in ssa.Instruction) string {
	switch v := in.(type) {
	case *ssa.IndexAddr, *ssa.Index:
		return "index"
	case *ssa.Slice:
		return "slice"
	case *ssa.TypeAssert:
		if !v.CommaOk {
			return "typeassert"
		}
	case *ssa.BinOp:
		if v.Op == token.QUO || v.Op == token.REM {
			return "div"
		}
		if v.Op == token.ADD || v.Op == token.SUB || v.Op == token.MUL {
			return "overflow"
		}
	case *ssa.MapUpdate:
		return "nilmap"
	case *ssa.FieldAddr, *ssa.Store:
		return "nil"
	case *ssa.UnOp:
		if v.Op == token.MUL {
			return "nil"
		}
	case *ssa.Call, *ssa.Defer, *ssa.Go:
		return "call"
	case *ssa.Panic:
		return "panic"
	case *ssa.Convert:
		return "convert"
	case *ssa.MakeSlice:
		return "makeslice"
	case *ssa.Send:
		return "send"
	}
	return ""
}

func (e *Engine) newFnCtx(fn *ssa.Function, con *Contract) *fnCtx {
	pkg, key := funcKey(fn)
	x := &fnCtx{eng: e, fn: fn, con: con, key: pkg + "." + key, short: shortPkg(pkg) + "." + key}
	x.headers = map[*ssa.BasicBlock]int{}
	x.hdrList = findLoopHeaders(fn)
	if con != nil {
		for _, cl := range con.Clauses {
			if cl.Kind == "exit" && cl.appliesTo(e.prop) {
				x.hasExit = true
			}
		}
	}
	for i, h := range x.hdrList {
		x.headers[h] = i + 1
	}
	x.siteOrd = map[ssa.Instruction]int{}
	counts := map[string]int{}
	for _, b := range fn.Blocks {
		for _, in := range b.Instrs {
			if k := siteKind(in); k != "" {
				counts[k]++
				x.siteOrd[in] = counts[k]
			}
		}
	}
	sigs := localSigs(fn)
	if e.curLocals == nil {
		e.curLocals = map[string]map[string]string{}
	}
	e.curLocals[x.short] = sigs
	x.alias = computeAlias(e.baseLocals[x.short], sigs)
	x.writes = map[string]bool{}
	x.maxPaths = 4000
	return x
}

// addVC records a verification condition for the obligation site.
func (x *fnCtx) addVC(st *State, fnShort, kind string, ord int, sub string, goal *Term, desc, pos string) {
	if x.collecting {
		return
	}
	if st.dead {
		return
	}
	e := x.eng
	if x.con != nil && x.con.OnlyLayers != nil && !x.con.OnlyLayers[kindLayer(kind)] {
		return
	}
	if x.con != nil && x.con.SkipKinds[kind] {
		x.eng.logAbs("%s: obligations of kind %s are not generated (contract: skip)", x.short, kind)
		return
	}
	if e.both {
		isLockKind := false
		switch kind {
		case "guard", "lock", "unlock", "lockleak", "lockpost", "monitor", "chanclose":
			isLockKind = true
		}
		if kind == "pre" && strings.Contains(sub, ".holds") {
			isLockKind = true
		}
		if e.passConc != isLockKind {
			return
		}
	}
	name := fmt.Sprintf("%s/%s/%s#%d", e.prop, fnShort, kind, ord)
	if sub != "" {
		name += "." + sub
	}
	if goal == True {
		// decided by the generator's simplifier: recorded, discharged syntactically
		switch kind {
		case "post", "at_call", "at_store", "only_calls", "inv_init", "inv_keep", "step", "exit", "trace_step", "pre", "monitor", "lemma", "lockpost", "callpost", "capture", "trace_entry":
			e.noteTrivial(name, fnShort, kind, ord, desc)
		}
		return
	}
	ob := e.obls[name]
	if ob == nil {
		ob = &Obligation{Name: name, Func: fnShort, Kind: kind, Ord: ord, Desc: desc, Pos: pos}
		e.obls[name] = ob
		e.order = append(e.order, name)
	}
	if x.abstracted {
		ob.Abstracted = true
	}
	budget := 16
	for _, g := range splitGoal(goal, &budget) {
		vc := &VC{Assumps: append([]*Term(nil), st.pc...), Goal: g, From: st.from, Note: desc}
		ob.VCs = append(ob.VCs, vc)
	}
}

// splitGoal breaks a goal into conjuncts (through implications and universal quantifiers);
// each part is discharged as its own query under the same assumptions.
func splitGoal(g *Term, budget *int) []*Term {
	if *budget <= 1 {
		return []*Term{g}
	}
	switch {
	case g.Kind == KBuiltin && g.Op == "and":
		*budget -= len(g.Args) - 1
		var out []*Term
		for _, a := range g.Args {
			out = append(out, splitGoal(a, budget)...)
		}
		return out
	case g.Kind == KBuiltin && g.Op == "=>" && len(g.Args) == 2:
		parts := splitGoal(g.Args[1], budget)
		if len(parts) > 1 {
			var out []*Term
			for _, p := range parts {
				out = append(out, Implies(g.Args[0], p))
			}
			return out
		}
	case g.Kind == KQuant && g.Op == "forall":
		parts := splitGoal(g.Args[0], budget)
		if len(parts) > 1 {
			var out []*Term
			for _, p := range parts {
				out = append(out, TC.mk(KQuant, "forall", SBool, []*Term{p}, g.Bound, g.Pats))
			}
			return out
		}
	}
	return []*Term{g}
}

// ---------------- heap access ----------------

var heapSorts = map[string]Sort{}

func (x *fnCtx) heapArr(st *State, name string, sort Sort) *Term {
	heapSorts[name] = sort
	return st.heap.get(name, sort)
}

func (x *fnCtx) setHeap(st *State, name string, t *Term) {
	st.heap.m[name] = t
	if x.collecting {
		if x.writePos == nil {
			x.writePos = map[string][]wpos{}
		}
		x.writePos[name] = append(x.writePos[name], wpos{x.curBlock, x.curIdx})
	}
	x.writes[name] = true
}

func elemHeapName(elem types.Type) string { return "E:" + canonTypeStr(elem) }
func cellHeapName(t types.Type) string    { return "C:" + canonTypeStr(t) }

// canonTypeStr names a type for heap partitioning; aliases (byte, rune) are resolved.
func canonTypeStr(t types.Type) string {
	t = types.Unalias(t)
	if b, ok := t.(*types.Basic); ok {
		switch b.Kind() {
		case types.Uint8:
			return "uint8"
		case types.Int32:
			return "int32"
		}
	}
	return typeStr(t)
}

func (x *fnCtx) addrOf(p *Val) *Addr {
	if p.A != nil {
		return p.A
	}
	pt, ok := p.T.Underlying().(*types.Pointer)
	if !ok {
		panic("addrOf non-pointer " + p.String())
	}
	el := pt.Elem()
	if _, ok := transparentStruct(el); ok {
		return &Addr{Kind: AObj, Base: p.L[0], Root: el, Elem: el}
	}
	if arr, ok := el.Underlying().(*types.Array); ok {
		_ = arr
		return &Addr{Kind: AElem, Base: p.L[0], Idx: IntLit(0), Elem: el}
	}
	return &Addr{Kind: ACell, Base: p.L[0], Elem: el}
}

func (x *fnCtx) load(st *State, a *Addr) *Val {
	t := a.Elem
	v := &Val{T: t}
	ls := layout(t)
	switch a.Kind {
	case AObj:
		name, _ := heapKeyStruct(a.Root, a.Path)
		for _, l := range ls {
			arr := x.heapArr(st, name+l.Suffix, ArrSort(SInt, l.Sort))
			v.L = append(v.L, Select(arr, a.Base))
		}
	case AElem:
		name := elemHeapName(t)
		if a.ERoot != nil {
			name = elemHeapName(a.ERoot)
			start, n, _ := subLeaves(a.ERoot, a.Sub)
			ls = layout(a.ERoot)[start : start+n]
		}
		for _, l := range ls {
			arr := x.heapArr(st, name+l.Suffix, ArrSort(SInt, ArrSort(SInt, l.Sort)))
			v.L = append(v.L, Select(Select(arr, a.Base), a.Idx))
		}
	case ACell:
		name := cellHeapName(t)
		if a.ERoot != nil {
			name = cellHeapName(a.ERoot)
			start, n, _ := subLeaves(a.ERoot, a.Sub)
			ls = layout(a.ERoot)[start : start+n]
		}
		for _, l := range ls {
			arr := x.heapArr(st, name+l.Suffix, ArrSort(SInt, l.Sort))
			v.L = append(v.L, Select(arr, a.Base))
		}
	}
	return v
}

func (st *State) markEscaped(v *Val) {
	if v == nil {
		return
	}
	for _, e := range v.Tup {
		st.markEscaped(e)
	}
	for _, l := range v.L {
		if st.fresh[l] {
			if st.escaped == nil {
				st.escaped = map[*Term]bool{}
			}
			st.escaped[l] = true
		}
	}
}

func (x *fnCtx) store(st *State, a *Addr, v *Val) {
	if !(st.fresh[a.Base] && !st.escaped[a.Base]) {
		st.markEscaped(v) // storing into an unpublished object of this call publishes nothing
	}
	ls := layout(a.Elem)
	if len(ls) != len(v.L) {
		panic(fmt.Sprintf("store layout mismatch: %s <- %s", typeStr(a.Elem), v))
	}
	switch a.Kind {
	case AObj:
		name, _ := heapKeyStruct(a.Root, a.Path)
		for i, l := range ls {
			arr := x.heapArr(st, name+l.Suffix, ArrSort(SInt, l.Sort))
			x.setHeap(st, name+l.Suffix, Store(arr, a.Base, v.L[i]))
		}
	case AElem:
		name := elemHeapName(a.Elem)
		if a.ERoot != nil {
			name = elemHeapName(a.ERoot)
			start, n, _ := subLeaves(a.ERoot, a.Sub)
			ls = layout(a.ERoot)[start : start+n]
		}
		for i, l := range ls {
			arr := x.heapArr(st, name+l.Suffix, ArrSort(SInt, ArrSort(SInt, l.Sort)))
			x.setHeap(st, name+l.Suffix, Store(arr, a.Base, Store(Select(arr, a.Base), a.Idx, v.L[i])))
		}
	case ACell:
		name := cellHeapName(a.Elem)
		if a.ERoot != nil {
			name = cellHeapName(a.ERoot)
			start, n, _ := subLeaves(a.ERoot, a.Sub)
			ls = layout(a.ERoot)[start : start+n]
		}
		for i, l := range ls {
			arr := x.heapArr(st, name+l.Suffix, ArrSort(SInt, l.Sort))
			x.setHeap(st, name+l.Suffix, Store(arr, a.Base, v.L[i]))
		}
	}
}

// elemArr returns the whole element array (Int -> leaf) of backing array ref for a
// single-leaf element type.
func (x *fnCtx) elemArr(st *State, elem types.Type, ref *Term, leaf int) *Term {
	l := layout(elem)[leaf]
	arr := x.heapArr(st, elemHeapName(elem)+l.Suffix, ArrSort(SInt, ArrSort(SInt, l.Sort)))
	return Select(arr, ref)
}

func (x *fnCtx) setElemArr(st *State, elem types.Type, ref *Term, leaf int, nv *Term) {
	l := layout(elem)[leaf]
	name := elemHeapName(elem) + l.Suffix
	arr := x.heapArr(st, name, ArrSort(SInt, ArrSort(SInt, l.Sort)))
	x.setHeap(st, name, Store(arr, ref, nv))
}

// newRef allocates a fresh reference distinct from every previously known one.
func (x *fnCtx) newRef(st *State, hint string) *Term {
	r := Fresh(hint, SInt)
	allocSyms[r] = true
	allocSymNames[r.Op] = true
	alloc := x.heapArr(st, "$alloc", ArrSort(SInt, SBool))
	st.assume(Not(Select(alloc, r)))
	st.assume(Lt(IntLit(0), r))
	x.setHeap(st, "$alloc", Store(alloc, r, True))
	st.fresh[r] = true
	if len(x.eng.tracked) > 0 && !strings.HasPrefix(hint, "new.") {
		st.assume(Eq(Select(typeHeap, r), IntLit(0)))
	}
	return r
}

// assumeAllocated records that a reference obtained from the pre-state is allocated (or nil).
func (x *fnCtx) assumeAllocated(st *State, r *Term) {
	if r.IsLit() || st.fresh[r] {
		return
	}
	alloc := x.heapArr(st, "$alloc", ArrSort(SInt, SBool))
	// a value read from a heap component that still has its entry value existed at entry
	if r.Kind == KBuiltin && r.Op == "select" && r.Args[0].Kind == KSym && strings.HasPrefix(r.Args[0].Op, "H.") && !strings.ContainsAny(r.Args[0].Op, "@!") && len(st.frames) > 0 && st.frames[0].oldHeap != nil {
		alloc = hget(st.frames[0].oldHeap, "$alloc", ArrSort(SInt, SBool))
	} else if r.Kind == KBuiltin && r.Op == "select" && r.Args[0].Kind == KSym && strings.HasPrefix(r.Args[0].Op, "H.") {
		if k := strings.LastIndex(r.Args[0].Op, "@"); k > 0 {
			if n, err := strconv.Atoi(r.Args[0].Op[k+1:]); err == nil && epochAlloc[n] != nil {
				alloc = epochAlloc[n]
			}
		}
	}
	st.assume(Or(Eq(r, IntLit(0)), Select(alloc, r)))
	st.assume(Le(IntLit(0), r))
}

func (x *fnCtx) assumeValAllocated(st *State, v *Val) {
	if v.Tup != nil {
		for _, e := range v.Tup {
			x.assumeValAllocated(st, e)
		}
		return
	}
	for i, l := range layout(v.T) {
		if l.Role == "ref" || l.Role == "arr" {
			x.assumeAllocated(st, v.L[i])
		}
	}
	// A-IFACEREF: a non-nil value of one of the repository's own (non-empty) interface types
	// is a pointer or a boxed struct: its payload is an object reference
	if nt, ok := v.T.(*types.Named); ok && len(v.L) == 2 && nt.Obj().Pkg() != nil && strings.HasPrefix(nt.Obj().Pkg().Path(), repoPrefix) {
		if it, ok := nt.Underlying().(*types.Interface); ok && it.NumMethods() > 0 {
			x.assumeAllocated(st, v.L[1])
		}
	}
	x.assumeDynType(st, v)
}

// typeHeap is the (immutable) map from references to the dynamic type of the object
// they denote, as the interface tag of the pointer type; only tracked types are constrained.
var typeHeap = Sym("$type", ArrSort(SInt, SInt))

func trackedElem(e *Engine, t types.Type) (types.Type, bool) {
	if len(e.tracked) == 0 {
		return nil, false
	}
	p, ok := t.Underlying().(*types.Pointer)
	if !ok {
		return nil, false
	}
	if _, isNamed := p.Elem().(*types.Named); !isNamed {
		return nil, false
	}
	if !e.tracked[typeStr(p.Elem())] {
		return nil, false
	}
	return p.Elem(), true
}

// assumeDynType: Go's type safety: a non-nil *T refers to a T object; an interface whose
// dynamic type is *T carries such a reference.
func (x *fnCtx) assumeDynType(st *State, v *Val) {
	if len(x.eng.tracked) == 0 || v.Tup != nil || len(v.L) == 0 {
		return
	}
	if el, ok := trackedElem(x.eng, v.T); ok {
		if !v.L[0].IsLit() {
			st.assume(Or(Eq(v.L[0], IntLit(0)), Eq(Select(typeHeap, v.L[0]), IntLit(typeTag(types.NewPointer(el))))))
		}
		return
	}
	if _, ok := v.T.Underlying().(*types.Interface); ok && len(v.L) == 2 && !v.L[0].IsLit() {
		for _, tg := range x.eng.trackedTags(nil) {
			st.assume(Implies(Eq(v.L[0], IntLit(tg)), Eq(Select(typeHeap, v.L[1]), IntLit(tg))))
		}
	}
}

// trackedTags: the $type values of the named tracked types (all of them when names is nil)
func (e *Engine) trackedTags(names []string) []int64 {
	var out []int64
	var keys []string
	for name := range e.tracked {
		keys = append(keys, name)
	}
	sort.Strings(keys)
	for _, name := range keys {
		if names != nil {
			found := false
			for _, n := range names {
				if n == name {
					found = true
				}
			}
			if !found {
				continue
			}
		}
		i := strings.LastIndex(name, ".")
		if i < 0 {
			continue
		}
		for _, p := range e.prog.AllPackages() {
			if p.Pkg.Name() != name[:i] || !strings.HasPrefix(p.Pkg.Path(), repoPrefix) {
				continue
			}
			if obj := p.Pkg.Scope().Lookup(name[i+1:]); obj != nil {
				out = append(out, typeTag(types.NewPointer(obj.Type())))
			}
		}
	}
	return out
}

// typeAmong: $type[r] is 0 (untracked) or one of tags
func typeAmong(r *Term, tags []int64) *Term {
	alts := []*Term{Eq(Select(typeHeap, r), IntLit(0))}
	for _, tg := range tags {
		alts = append(alts, Eq(Select(typeHeap, r), IntLit(tg)))
	}
	return Or(alts...)
}

// havocHeap replaces the named heap array by a fresh one.
func (x *fnCtx) havocHeap(st *State, name string) {
	if name == "$alloc" {
		return // allocation only grows; handled by allocation facts
	}
	cur, ok := st.heap.m[name]
	if !ok {
		// never touched on this path: its initial symbol is unconstrained, but make
		// sure later reads do not alias the pre-state symbol
		x.writes[name] = true
		if st.heap.poison == nil {
			st.heap.poison = map[string]bool{}
		}
		st.heap.poison[name] = true
		return
	}
	x.setHeap(st, name, Fresh("H."+name, cur.Sort))
}

func (x *fnCtx) havocAllHeap(st *State, why string, passed ...*Val) {
	x.eng.logAbs("%s: havoc of the whole heap (%s)", x.short, why)
	alloc := st.heap.m["$alloc"]
	old := st.heap
	epochCounter++
	st.heap = &Heap{m: map[string]*Term{}, epoch: epochCounter}
	if alloc != nil {
		st.heap.m["$alloc"] = alloc
	}
	// ghost state that only the engine updates survives
	for k, v := range old.m {
		if strings.HasPrefix(k, "$lock") || strings.HasPrefix(k, "$visited") {
			st.heap.m[k] = v
		}
	}
	// fields declared immutable / stable are not havoced: entries of objects that already exist
	// keep their value, entries of unallocated references are unconstrained anyway (pool view)
	for name, cur := range old.m {
		if stableHeapNames[name] {
			st.heap.m[name] = cur
		}
	}
	// ... except the stable / private components that the known callee's package can reach
	if havocPkg != nil || len(havocExcept) > 0 {
		for name, owner := range stableOwner {
			if (havocPkg != nil && reachesPkg(havocPkg, owner, map[*types.Package]bool{})) || matchesComponent(havocExcept, name) {
				if srt, ok := heapSorts[name]; ok {
					st.heap.m[name] = Fresh("H."+name, srt)
				} else if cur, ok := old.m[name]; ok {
					st.heap.m[name] = Fresh("H."+name, cur.Sort)
				}
			}
		}
	}
	// locals of this function (and variables captured by this closure) are modified by a
	// callee only if it receives their address in this call (A-ESCAPE)
	passedRef := map[*Term]bool{}
	var mark func(v *Val)
	mark = func(v *Val) {
		if v == nil {
			return
		}
		for _, e := range v.Tup {
			mark(e)
		}
		for _, l := range v.L {
			passedRef[l] = true
		}
		if v.Fn != nil {
			for i, b := range v.Fn.Bindings {
				// a captured variable that the closure only reads is not modified through it
				if i < len(v.Fn.Fn.FreeVars) && closureOnlyReads(v.Fn.Fn, v.Fn.Fn.FreeVars[i]) {
					continue
				}
				mark(b)
			}
		}
	}
	for _, p := range passed {
		mark(p)
	}
	for _, so := range st.stackObjs {
		if passedRef[so.ref] {
			continue
		}
		for _, nm := range so.names {
			srt := heapSorts[nm]
			before := old.get(nm, srt)
			after := st.heap.get(nm, srt)
			st.heap.m[nm] = Store(after, so.ref, Select(before, so.ref))
		}
	}
	x.writes["*"] = true
	if a := st.heap.m["$alloc"]; a != nil {
		epochAlloc[st.heap.epoch] = a
	}
}

// epochAlloc: the allocation set as of a whole-heap havoc. A heap component that still is the
// symbol introduced by that havoc (H.name@N) holds only references that were nil or allocated
// then, whatever was allocated afterwards.
var epochAlloc = map[int]*Term{}

func kindLayer(kind string) string {
	switch kind {
	case "index", "slice", "nil", "div", "makeslice", "typeassert", "nilmap", "panic", "call":
		return "safety"
	case "overflow":
		return "overflow"
	case "trace_ensures", "trace_panics", "trace_entry":
		return "trace"
	case "guard", "lock", "unlock", "lockleak", "lockpost", "monitor", "chanclose":
		return "lock"
	}
	return "contract"
}

// closureOnlyReads: the closure never stores through the captured variable's cell and never
// lets its address escape (it only loads it).
func closureOnlyReads(fn *ssa.Function, fv *ssa.FreeVar) bool {
	refs := fv.Referrers()
	if refs == nil {
		return false
	}
	for _, r := range *refs {
		switch u := r.(type) {
		case *ssa.UnOp:
			if u.Op != token.MUL {
				return false
			}
		case *ssa.DebugRef:
		default:
			return false
		}
	}
	return true
}
