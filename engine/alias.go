package main

// Tolerance to renamed locals and parameters. A contract names the variables of its function;
// when a behaviour-preserving edit renames one, the name no longer resolves. At baseline time
// every named variable of every function under contract gets a signature (type, and how it is
// defined: parameter position, loop-header phi, result of which callee, ...). If a name of the
// contract is unknown in the current tree, the baseline had it, and exactly one new name of
// the function carries the same signature, the contract's name is read as that variable. The
// clause is then checked as usual, so a wrong guess can only fail, never silently pass more
// than the clause says; ambiguity or a changed signature leaves the name unresolved (alarm).

import (
	"fmt"
	"go/types"
	"sort"
	"strings"

	"golang.org/x/tools/go/ssa"
)

func valueSig(fn *ssa.Function, v ssa.Value, hdr map[*ssa.BasicBlock]int) string {
	t := types.TypeString(v.Type(), nil)
	switch u := v.(type) {
	case *ssa.Parameter:
		for i, p := range fn.Params {
			if p == u {
				return fmt.Sprintf("param:%d:%s", i, t)
			}
		}
	case *ssa.Phi:
		if ip := inductionPhi(u.Block()); ip == u {
			return fmt.Sprintf("iphi:L%d:%s", hdr[u.Block()], t)
		}
		if hdr[u.Block()] == 0 {
			return "merge:" + t // a join after a branch, not a loop-carried value
		}
		return fmt.Sprintf("phi:L%d:%s", hdr[u.Block()], t)
	case *ssa.Call:
		return "call:" + calleeName(&u.Call) + ":" + t
	case *ssa.Extract:
		if c, ok := u.Tuple.(*ssa.Call); ok {
			return fmt.Sprintf("extract:%s:%d:%s", calleeName(&c.Call), u.Index, t)
		}
		return fmt.Sprintf("extract:%d:%s", u.Index, t)
	case *ssa.Alloc:
		return "alloc:" + t
	case *ssa.UnOp:
		return "unop:" + u.Op.String() + ":" + t
	case *ssa.BinOp:
		return "binop:" + u.Op.String() + ":" + t
	case *ssa.Const:
		return "const:" + t
	case *ssa.MakeSlice:
		return "makeslice:" + t
	case *ssa.Slice:
		return "slice:" + t
	case *ssa.TypeAssert:
		return "typeassert:" + t
	case *ssa.Lookup:
		return "lookup:" + t
	case *ssa.FreeVar:
		return "freevar:" + t
	}
	return "value:" + t
}

// localSigs: name -> signature for every named variable of fn.
func localSigs(fn *ssa.Function) map[string]string {
	hdr := map[*ssa.BasicBlock]int{}
	for i, h := range findLoopHeaders(fn) {
		hdr[h] = i + 1
	}
	sets := map[string]map[string]bool{}
	resultNamed := map[string]bool{}
	add := func(name, sig string) {
		if name == "" || name == "_" || resultNamed[name] {
			return
		}
		if sets[name] == nil {
			sets[name] = map[string]bool{}
		}
		sets[name][sig] = true
	}
	if res := fn.Signature.Results(); res != nil {
		for i := 0; i < res.Len(); i++ {
			if n := res.At(i).Name(); n != "" && n != "_" {
				// a named result is identified by its position alone
				sets[n] = map[string]bool{fmt.Sprintf("result:%d:%s", i, types.TypeString(res.At(i).Type(), nil)): true}
				resultNamed[n] = true
			}
		}
	}
	for _, p := range fn.Params {
		add(p.Name(), valueSig(fn, p, hdr))
	}
	for _, fv := range fn.FreeVars {
		add(fv.Name(), valueSig(fn, fv, hdr))
	}
	for _, b := range fn.Blocks {
		for _, in := range b.Instrs {
			switch v := in.(type) {
			case *ssa.Alloc:
				if v.Comment != "" && v.Comment != "complit" && v.Comment != "varargs" && v.Comment != "makeslice" {
					add(v.Comment, "alloc:"+types.TypeString(v.Type(), nil))
				}
			case *ssa.Phi:
				if v.Comment != "" && v.Comment != "rangeindex" {
					add(v.Comment, valueSig(fn, v, hdr))
				}
			case *ssa.DebugRef:
				if obj := v.Object(); obj != nil {
					if tv, ok := obj.(*types.Var); ok && !tv.IsField() {
						add(obj.Name(), valueSig(fn, v.X, hdr))
					}
				}
			}
		}
	}
	out := map[string]string{}
	for n, s := range sets {
		var l, strong []string
		for k := range s {
			l = append(l, k)
			if strings.HasPrefix(k, "phi:") || strings.HasPrefix(k, "iphi:") || strings.HasPrefix(k, "param:") || strings.HasPrefix(k, "makeslice:") || strings.HasPrefix(k, "call:") || strings.HasPrefix(k, "extract:") {
				strong = append(strong, k)
			}
		}
		// a loop-carried variable or a parameter is identified by that role alone: how else it
		// is assigned inside the body changes with harmless edits
		if len(strong) > 0 {
			l = strong
		}
		sort.Strings(l)
		out[n] = strings.Join(l, "|")
	}
	return out
}

// computeAlias maps baseline names that no longer exist to the unique new name with the same signature.
func computeAlias(base, cur map[string]string) map[string]string {
	alias := map[string]string{}
	if base == nil {
		return alias
	}
	for old, sig := range base {
		if _, still := cur[old]; still {
			continue
		}
		var cands []string
		for n, s := range cur {
			if _, wasThere := base[n]; wasThere {
				continue
			}
			if s == sig {
				cands = append(cands, n)
			}
		}
		if len(cands) == 1 {
			alias[old] = cands[0]
		} else if len(cands) == 0 && strings.HasPrefix(sig, "result:") {
			// the result lost its name: it is still the result at that position
			var k int
			if _, err := fmt.Sscanf(sig, "result:%d:", &k); err == nil {
				alias[old] = fmt.Sprintf("result%d", k)
			}
		}
	}
	// two old names must not map to one new name
	used := map[string]int{}
	for _, n := range alias {
		used[n]++
	}
	for o, n := range alias {
		if used[n] > 1 && !strings.HasPrefix(n, "result") {
			delete(alias, o)
		}
	}
	return alias
}
