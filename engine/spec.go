package main

// Evaluation of contract expressions to symbolic values in a given state.

import (
	"fmt"
	"go/constant"
	"go/token"
	"go/types"
	"os"
	"strconv"
	"strings"

	"golang.org/x/tools/go/ssa"
)

// evalClause evaluates a contract clause; a clause that cannot be evaluated in the current
// code (e.g. it names a local that no longer exists) becomes the unprovable goal `false`, so
// that it is reported for that clause alone (fail closed) and the rest is still analysed.
func (x *fnCtx) evalClause(env *specEnv, e *SExpr, what string) (t *Term) {
	defer func() {
		if r := recover(); r != nil {
			if ee, ok := r.(engineError); ok && strings.Contains(ee.msg, "spec:") {
				x.eng.logAbs("%s: clause not evaluable, reported as failed (contract-target-missing): %s: %s", x.short, what, ee.msg)
				t = Fresh("unevaluable", SBool)
				env.st.assume(Not(t))
				return
			}
			panic(r)
		}
	}()
	return x.evalSpecBool(env, e)
}

// tryEval evaluates a boolean clause; ok is false when it cannot be evaluated here.
func (x *fnCtx) tryEval(env *specEnv, e *SExpr) (t *Term, ok bool) {
	defer func() {
		if r := recover(); r != nil {
			if ee, isE := r.(engineError); isE && strings.Contains(ee.msg, "spec:") {
				x.eng.logAbs("%s: clause not evaluable: %s", x.short, ee.msg)
				t, ok = nil, false
				return
			}
			panic(r)
		}
	}()
	return x.evalSpecBool(env, e), true
}

func (x *fnCtx) evalSpecBool(env *specEnv, e *SExpr) *Term {
	v := x.evalSpec(env, e)
	if v.Tup != nil || len(v.L) != 1 || v.L[0].Sort != SBool {
		x.fail("spec expression %s is not boolean", e.String())
	}
	return v.L[0]
}

var (
	tInt    = types.Typ[types.Int]
	tBool   = types.Typ[types.Bool]
	tString = types.Typ[types.String]
	tByte   = types.Typ[types.Uint8]
)

func (env *specEnv) withHeap(h *Heap) *specEnv {
	n := *env
	n.heap = h
	return &n
}

func hget(h *Heap, name string, sort Sort) *Term {
	heapSorts[name] = sort
	return h.get(name, sort)
}

func (x *fnCtx) loadH(h *Heap, a *Addr) *Val {
	t := a.Elem
	v := &Val{T: t}
	ls := layout(t)
	switch a.Kind {
	case AObj:
		name, _ := heapKeyStruct(a.Root, a.Path)
		for _, l := range ls {
			v.L = append(v.L, Select(hget(h, name+l.Suffix, ArrSort(SInt, l.Sort)), a.Base))
		}
	case AElem:
		name := elemHeapName(t)
		if a.ERoot != nil {
			name = elemHeapName(a.ERoot)
			start, n, _ := subLeaves(a.ERoot, a.Sub)
			ls = layout(a.ERoot)[start : start+n]
		}
		for _, l := range ls {
			v.L = append(v.L, Select(Select(hget(h, name+l.Suffix, ArrSort(SInt, ArrSort(SInt, l.Sort))), a.Base), a.Idx))
		}
	case ACell:
		name := cellHeapName(t)
		if a.ERoot != nil {
			name = cellHeapName(a.ERoot)
			start, n, _ := subLeaves(a.ERoot, a.Sub)
			ls = layout(a.ERoot)[start : start+n]
		}
		for _, l := range ls {
			v.L = append(v.L, Select(hget(h, name+l.Suffix, ArrSort(SInt, l.Sort)), a.Base))
		}
	}
	return v
}

func (x *fnCtx) lookupName(env *specEnv, name string) (*Val, bool) {
	v, ok := x.lookupName0(env, name)
	if !ok && env.pkg == "" {
		if a, has := x.alias[name]; has {
			if v2, ok2 := x.lookupName0(env, a); ok2 {
				x.eng.logAbs("%s: contract name %q is read as the renamed variable %q (same signature as on the baseline tree)", x.short, name, a)
				return v2, true
			}
		}
	}
	return v, ok
}

func (x *fnCtx) lookupName0(env *specEnv, name string) (*Val, bool) {
	if v, ok := env.bound[name]; ok {
		return v, true
	}
	if name == "$i" {
		if nb, ok := env.names["rangeindex"]; ok {
			return nb.v, true
		}
	}
	if name == "$v" || name == "$k" {
		// the element (key) variable of the innermost range loop, independent of its source name
		if env.fr != nil {
			if v, ok := x.rangeVar(env, name == "$k"); ok {
				return v, true
			}
		}
	}
	if nb, ok := env.names[name]; ok {
		if nb.isAddr {
			return x.loadH(env.heap, x.addrOf(nb.v)), true
		}
		return nb.v, true
	}
	if v, ok := env.st.ghost[name]; ok {
		return v, true
	}
	// a `trace ... bind name` that did not fire on this path: an unconstrained value
	if x.con != nil {
		for _, td := range x.con.Traces {
			if td.As == name {
				if t := x.bindType(td); t != nil {
					// the call did not happen on this path: the zero value ("no result, no error")
					v := zeroVal(t)
					env.st.ghost[name] = v
					return v, true
				}
			}
		}
	}
	return nil, false
}

// rangeVar finds the value (or key) of the current iteration of a range loop of the function:
// the load of &X[rangeindex+1] (slices) or the extract of a map iterator's next tuple.
func (x *fnCtx) rangeVar(env *specEnv, key bool) (*Val, bool) {
	fr := env.fr
	for _, b := range x.fn.Blocks {
		for _, in := range b.Instrs {
			switch v := in.(type) {
			case *ssa.UnOp:
				if key || v.Op != token.MUL {
					continue
				}
				ia, ok := v.X.(*ssa.IndexAddr)
				if !ok {
					continue
				}
				bo, ok := ia.Index.(*ssa.BinOp)
				if !ok {
					continue
				}
				if phi, ok := bo.X.(*ssa.Phi); ok && phi.Comment == "rangeindex" {
					if r, ok := fr.regs[v]; ok {
						return r, true
					}
				}
			case *ssa.Extract:
				if nx, ok := v.Tuple.(*ssa.Next); ok && !nx.IsString {
					if (key && v.Index == 1) || (!key && v.Index == 2) {
						if r, ok := fr.regs[v]; ok {
							return r, true
						}
					}
				}
			}
		}
	}
	return nil, false
}

// bindType finds the result type of the calls matched by a trace declaration.
func (x *fnCtx) bindType(td *TraceDecl) types.Type {
	var found types.Type
	var scan func(fn *ssa.Function)
	scan = func(fn *ssa.Function) {
		for _, b := range fn.Blocks {
			for _, in := range b.Instrs {
				var c *ssa.CallCommon
				switch v := in.(type) {
				case *ssa.Call:
					c = &v.Call
				case *ssa.Defer:
					c = &v.Call
				}
				if c == nil || found != nil {
					continue
				}
				if matchCallee(td.Pattern, calleeName(c)) {
					res := c.Signature().Results()
					switch res.Len() {
					case 0:
					case 1:
						found = res.At(0).Type()
					default:
						found = res
					}
				}
			}
		}
	}
	scan(x.fn)
	// calls made by uncontracted, loop-free helpers of the same repository are inlined: look there too
	seen := map[*ssa.Function]bool{x.fn: true}
	var deep func(fn *ssa.Function, depth int)
	deep = func(fn *ssa.Function, depth int) {
		if found != nil || depth > 4 {
			return
		}
		for _, b := range fn.Blocks {
			for _, in := range b.Instrs {
				var c *ssa.CallCommon
				switch v := in.(type) {
				case *ssa.Call:
					c = &v.Call
				case *ssa.Defer:
					c = &v.Call
				}
				if c == nil {
					continue
				}
				callee := c.StaticCallee()
				if callee == nil || seen[callee] || len(callee.Blocks) == 0 {
					continue
				}
				pkg, key := funcKey(callee)
				if !strings.HasPrefix(pkg, repoPrefix) {
					continue
				}
				if _, has := x.eng.db.Funcs[pkg+"."+key]; has {
					continue
				}
				if len(findLoopHeaders(callee)) != 0 {
					continue
				}
				seen[callee] = true
				scan(callee)
				deep(callee, depth+1)
			}
		}
	}
	if found == nil {
		deep(x.fn, 0)
	}
	return found
}

func (x *fnCtx) findNamedType(name string, ctxPkg string) types.Type {
	switch name {
	case "map[string]interface{}":
		return types.NewMap(types.Typ[types.String], types.NewInterfaceType(nil, nil))
	case "string":
		return types.Typ[types.String]
	case "int":
		return types.Typ[types.Int]
	case "bool":
		return types.Typ[types.Bool]
	}
	star := strings.HasPrefix(name, "*")
	name = strings.TrimPrefix(name, "*")
	var pkg *types.Package
	tname := name
	if i := strings.LastIndex(name, "."); i >= 0 {
		pname := name[:i]
		tname = name[i+1:]
		for _, p := range x.eng.prog.AllPackages() {
			if p.Pkg.Name() == pname || p.Pkg.Path() == pname {
				if p.Pkg.Scope().Lookup(tname) != nil {
					pkg = p.Pkg
					break
				}
			}
		}
	} else if ctxPkg != "" && x.pkgByPath(ctxPkg) != nil {
		pkg = x.pkgByPath(ctxPkg)
	} else if x.fn.Pkg != nil {
		pkg = x.fn.Pkg.Pkg
	} else {
		for f := x.fn; f != nil; f = f.Parent() {
			if f.Pkg != nil {
				pkg = f.Pkg.Pkg
			}
		}
	}
	if pkg == nil {
		x.fail("spec: unknown package for type %s", name)
	}
	obj := pkg.Scope().Lookup(tname)
	if obj == nil {
		// a callee's contract evaluated at a call site: search the loaded repo packages
		for _, p := range x.eng.prog.AllPackages() {
			if strings.HasPrefix(p.Pkg.Path(), repoPrefix) {
				if o := p.Pkg.Scope().Lookup(tname); o != nil {
					if _, isType := o.(*types.TypeName); isType {
						obj = o
						break
					}
				}
			}
		}
	}
	if obj == nil {
		x.fail("spec: unknown type %s", name)
	}
	t := obj.Type()
	if star {
		return types.NewPointer(t)
	}
	return t
}

func (x *fnCtx) pkgByPath(path string) *types.Package {
	for _, p := range x.eng.prog.AllPackages() {
		if p.Pkg.Path() == path {
			return p.Pkg
		}
	}
	return nil
}

func (x *fnCtx) pkgMember(pkgName, member string) (*Val, bool) {
	pk := x.fn.Pkg
	for f := x.fn; pk == nil && f != nil; f = f.Parent() {
		pk = f.Pkg
	}
	if pk == nil {
		return nil, false
	}
	var target *types.Package
	if pk.Pkg.Name() == pkgName {
		target = pk.Pkg
	}
	for _, imp := range pk.Pkg.Imports() {
		if imp.Name() == pkgName {
			target = imp
		}
	}
	if target == nil {
		for _, p := range x.eng.prog.AllPackages() {
			if p.Pkg.Name() == pkgName {
				target = p.Pkg
			}
		}
	}
	if target == nil {
		return nil, false
	}
	obj := target.Scope().Lookup(member)
	switch o := obj.(type) {
	case *types.Const:
		switch o.Val().Kind() {
		case constant.Int:
			return scalar(o.Type(), BigLit(o.Val().ExactString())), true
		case constant.String:
			return scalar(o.Type(), StrLit(constant.StringVal(o.Val()))), true
		case constant.Bool:
			return scalar(o.Type(), BoolLit(constant.BoolVal(o.Val()))), true
		}
	case *types.Var:
		ref := Sym("G@"+target.Path()+"."+member, SInt)
		el := o.Type()
		a := &Addr{Kind: ACell, Base: ref, Elem: el}
		if _, ok := transparentStruct(el); ok {
			a = &Addr{Kind: AObj, Base: ref, Root: el, Elem: el}
		}
		return &Val{T: types.NewPointer(el), L: []*Term{ref}, A: a}, true
	}
	return nil, false
}

func (x *fnCtx) isNilTerm(v *Val) *Term {
	switch v.T.Underlying().(type) {
	case *types.Interface:
		return Eq(v.Tag(), IntLit(0))
	case *types.Slice:
		return Eq(v.Arr(), IntLit(0))
	default:
		return Eq(v.L[0], IntLit(0))
	}
}

func (x *fnCtx) evalSpec(env *specEnv, e *SExpr) *Val {
	switch e.Kind {
	case "int":
		return scalar(tInt, BigLit(e.Op))
	case "str":
		return scalar(tString, StrLit(e.Op))
	case "ident":
		switch e.Op {
		case "true":
			return scalar(tBool, True)
		case "false":
			return scalar(tBool, False)
		case "nil":
			return &Val{T: types.Typ[types.UntypedNil], L: []*Term{IntLit(0)}}
		}
		if v, ok := x.lookupName(env, e.Op); ok {
			return v
		}
		// package-level constant of the function's own package
		if v, ok := x.pkgMember(x.pkgName(), e.Op); ok {
			if isPointer(v.T) && v.A != nil {
				return x.loadH(env.heap, v.A)
			}
			return v
		}
		x.fail("spec: unknown identifier %q", e.Op)
	case "un":
		a := x.evalSpec(env, e.Args[0])
		switch e.Op {
		case "!":
			return scalar(tBool, Not(a.L[0]))
		case "-":
			return scalar(tInt, Neg(a.L[0]))
		}
	case "bin":
		return x.evalSpecBin(env, e)
	case "field":
		// package member?
		if b := e.Args[0]; b.Kind == "ident" {
			if _, ok := x.lookupName(env, b.Op); !ok {
				if v, ok2 := x.pkgMember(b.Op, e.Op); ok2 {
					if isPointer(v.T) && v.A != nil {
						return x.loadH(env.heap, v.A) // global variable value
					}
					return v
				}
			}
		}
		base := x.evalSpec(env, e.Args[0])
		if base.Tup != nil {
			i, err := strconv.Atoi(e.Op)
			if err != nil || i < 0 || i >= len(base.Tup) {
				x.fail("spec: bad tuple projection .%s", e.Op)
			}
			return base.Tup[i]
		}
		fv := x.specField(env, base, e.Op)
		if env.closed && !env.inQuant && env.st != nil && env.heap == env.st.heap && fv != nil && fv.Tup == nil {
			x.assumeValAllocated(env.st, fv)
		}
		return fv
	case "index":
		base := x.evalSpec(env, e.Args[0])
		idx := x.evalSpec(env, e.Args[1])
		if base.Tup == nil && len(base.L) == 1 && base.L[0].Sort.IsArray() {
			_, es := base.L[0].Sort.ArrParts()
			var rt types.Type = tInt
			switch es {
			case SBool:
				rt = tBool
			case SStr:
				rt = tString
			}
			return scalar(rt, Select(base.L[0], idx.L[0]))
		}
		switch bt := base.T.Underlying().(type) {
		case *types.Slice:
			a := &Addr{Kind: AElem, Base: base.Arr(), Idx: Add(base.Off(), idx.L[0]), Elem: bt.Elem()}
			return x.loadH(env.heap, a)
		case *types.Basic:
			return scalar(tByte, SAt(base.L[0], idx.L[0]))
		case *types.Map:
			return x.specMapGet(env, base, idx)
		}
		x.fail("spec: cannot index %s", typeStr(base.T))
	case "slice":
		base := x.evalSpec(env, e.Args[0])
		var lo, hi *Term
		if e.Args[1] != nil {
			lo = x.evalSpec(env, e.Args[1]).L[0]
		} else {
			lo = IntLit(0)
		}
		if isString(base.T) {
			if e.Args[2] != nil {
				hi = x.evalSpec(env, e.Args[2]).L[0]
			} else {
				hi = SLen(base.L[0])
			}
			return scalar(tString, SSub(base.L[0], lo, hi))
		}
		if isSlice(base.T) {
			if e.Args[2] != nil {
				hi = x.evalSpec(env, e.Args[2]).L[0]
			} else {
				hi = base.Len()
			}
			return &Val{T: base.T, L: []*Term{base.Arr(), Add(base.Off(), lo), Sub(hi, lo), Sub(base.Cap(), lo)}}
		}
		x.fail("spec: cannot slice %s", typeStr(base.T))
	case "call":
		return x.evalSpecCall(env, e)
	}
	x.fail("spec: cannot evaluate %s", e.String())
	return nil
}

func (x *fnCtx) pkgName() string {
	for f := x.fn; f != nil; f = f.Parent() {
		if f.Pkg != nil {
			return f.Pkg.Pkg.Name()
		}
	}
	return ""
}

// typedLoad adds the type invariants (0 <= len <= cap, ...) of a value read from the heap by a
// contract expression; they hold in every well-typed heap.
func (x *fnCtx) typedLoad(env *specEnv, v *Val) *Val {
	for _, l := range v.L {
		if l.hasBV {
			return v
		}
	}
	for _, f := range rangeFacts(v) {
		env.st.assume(f)
	}
	return v
}

func (x *fnCtx) specField(env *specEnv, base *Val, field string) *Val {
	v := x.specField0(env, base, field)
	return x.typedLoad(env, v)
}

func (x *fnCtx) specField0(env *specEnv, base *Val, field string) *Val {
	t := base.T
	if p, ok := t.Underlying().(*types.Pointer); ok {
		el := p.Elem()
		if st, ok := transparentStruct(el); ok {
			for i := 0; i < st.NumFields(); i++ {
				if st.Field(i).Name() == field {
					ba := x.addrOf(base)
					a := &Addr{Kind: AObj, Base: ba.Base, Root: ba.Root, Path: append(append([]int(nil), ba.Path...), i), Elem: st.Field(i).Type()}
					if ba.Kind != AObj {
						a = &Addr{Kind: AObj, Base: base.L[0], Root: el, Path: []int{i}, Elem: st.Field(i).Type()}
					}
					if _, isStruct := st.Field(i).Type().Underlying().(*types.Struct); isStruct {
						if _, transparent := transparentStruct(st.Field(i).Type()); !transparent {
							// opaque embedded struct (mutex...): the expression denotes its address
							return &Val{T: types.NewPointer(st.Field(i).Type()), L: []*Term{fieldAddrTerm(a)}, A: a}
						}
					}
					return x.loadH(env.heap, a)
				}
			}
			// promoted field through embedded struct
			for i := 0; i < st.NumFields(); i++ {
				if st.Field(i).Embedded() {
					if est, ok := transparentStruct(st.Field(i).Type()); ok {
						for j := 0; j < est.NumFields(); j++ {
							if est.Field(j).Name() == field {
								ba := x.addrOf(base)
								a := &Addr{Kind: AObj, Base: ba.Base, Root: ba.Root, Path: append(append([]int(nil), ba.Path...), i, j), Elem: est.Field(j).Type()}
								return x.loadH(env.heap, a)
							}
						}
					}
				}
			}
		}
		x.fail("spec: no field %s in %s", field, typeStr(t))
	}
	if st, ok := transparentStruct(t); ok {
		off := 0
		for i := 0; i < st.NumFields(); i++ {
			n := len(layout(st.Field(i).Type()))
			if st.Field(i).Name() == field {
				return &Val{T: st.Field(i).Type(), L: base.L[off : off+n]}
			}
			off += n
		}
	}
	x.fail("spec: cannot select field %s of %s", field, typeStr(t))
	return nil
}

func (x *fnCtx) specMapGet(env *specEnv, m, k *Val) *Val {
	mt := m.T.Underlying().(*types.Map)
	ks, ok := mapSorts(mt)
	if !ok {
		x.fail("spec: map with composite key")
	}
	out := &Val{T: mt.Elem()}
	for _, l := range layout(mt.Elem()) {
		arr := hget(env.heap, mapHeapName(mt)+"#val"+l.Suffix, ArrSort(SInt, ArrSort(ks, l.Sort)))
		out.L = append(out.L, Select(Select(arr, m.L[0]), mapKey(k)))
	}
	return out
}

func (x *fnCtx) specMapDom(env *specEnv, m *Val) *Term {
	mt := m.T.Underlying().(*types.Map)
	ks, _ := mapSorts(mt)
	return Select(hget(env.heap, mapHeapName(mt)+"#dom", ArrSort(SInt, ArrSort(ks, SBool))), m.L[0])
}

func (x *fnCtx) evalSpecBin(env *specEnv, e *SExpr) *Val {
	switch e.Op {
	case "&&":
		return scalar(tBool, And(x.evalSpecBool(env, e.Args[0]), x.evalSpecBool(env, e.Args[1])))
	case "||":
		return scalar(tBool, Or(x.evalSpecBool(env, e.Args[0]), x.evalSpecBool(env, e.Args[1])))
	case "==>":
		return scalar(tBool, Implies(x.evalSpecBool(env, e.Args[0]), x.evalSpecBool(env, e.Args[1])))
	case "<==>":
		return scalar(tBool, Iff(x.evalSpecBool(env, e.Args[0]), x.evalSpecBool(env, e.Args[1])))
	}
	a := x.evalSpec(env, e.Args[0])
	b := x.evalSpec(env, e.Args[1])
	switch e.Op {
	case "==", "!=":
		var eq *Term
		aNil := a.T == types.Typ[types.UntypedNil]
		bNil := b.T == types.Typ[types.UntypedNil]
		switch {
		case aNil && bNil:
			eq = True
		case bNil:
			eq = x.isNilTerm(a)
		case aNil:
			eq = x.isNilTerm(b)
		case len(a.L) != len(b.L):
			x.fail("spec: comparing %s with %s", typeStr(a.T), typeStr(b.T))
		default:
			if isSlice(a.T) {
				// slice equality in specs: same header
				eq = valEq(a, b)
			} else {
				eq = valEq(a, b)
			}
		}
		if e.Op == "!=" {
			eq = Not(eq)
		}
		return scalar(tBool, eq)
	}
	if isString(a.T) && e.Op == "+" {
		return scalar(tString, SCat(a.L[0], b.L[0]))
	}
	if isString(a.T) && isString(b.T) {
		switch e.Op {
		case "<":
			return scalar(tBool, App("strlt", SBool, a.L[0], b.L[0]))
		case ">":
			return scalar(tBool, App("strlt", SBool, b.L[0], a.L[0]))
		case "<=":
			return scalar(tBool, Not(App("strlt", SBool, b.L[0], a.L[0])))
		case ">=":
			return scalar(tBool, Not(App("strlt", SBool, a.L[0], b.L[0])))
		}
	}
	at, bt := a.L[0], b.L[0]
	switch e.Op {
	case "<":
		return scalar(tBool, Lt(at, bt))
	case "<=":
		return scalar(tBool, Le(at, bt))
	case ">":
		return scalar(tBool, Gt(at, bt))
	case ">=":
		return scalar(tBool, Ge(at, bt))
	case "+":
		return scalar(tInt, Add(at, bt))
	case "-":
		return scalar(tInt, Sub(at, bt))
	case "*":
		return scalar(tInt, Mul(at, bt))
	case "/":
		return scalar(tInt, Div(at, bt))
	case "%":
		return scalar(tInt, Mod(at, bt))
	}
	x.fail("spec: unsupported operator %s", e.Op)
	return nil
}

func (x *fnCtx) evalSpecCall(env *specEnv, e *SExpr) *Val {
	callee := e.Args[0]
	args := e.Args[1:]
	name := ""
	var recv *SExpr
	switch callee.Kind {
	case "ident":
		name = callee.Op
	case "field":
		name = callee.Op
		recv = callee.Args[0]
		qualified := false
		if recv.Kind == "ident" {
			if _, isName := x.lookupName(env, recv.Op); !isName {
				// pkg.Func(...): a pure function (of the repository or an extern) by qualified name
				q := recv.Op + "." + callee.Op
				for _, con := range x.eng.db.Funcs {
					if con.Pure && (shortPkg(con.Pkg)+"."+con.Func == q || con.Pkg+"."+con.Func == q) {
						name = q
						qualified = true
					}
				}
			}
		}
		if !qualified {
			// method-style: f(recv, args...)
			args = append([]*SExpr{recv}, args...)
		}
	default:
		x.fail("spec: bad call %s", e.String())
	}
	ev := func(i int) *Val { return x.evalSpec(env, args[i]) }
	switch name {
	case "len":
		a := ev(0)
		switch a.T.Underlying().(type) {
		case *types.Slice:
			return scalar(tInt, a.Len())
		case *types.Basic:
			return scalar(tInt, SLen(a.L[0]))
		case *types.Map:
			return scalar(tInt, Select(hget(env.heap, "$maplen", ArrSort(SInt, SInt)), a.L[0]))
		}
		x.fail("spec: len of %s", typeStr(a.T))
	case "cap":
		return scalar(tInt, ev(0).Cap())
	case "arr":
		return scalar(tInt, ev(0).Arr())
	case "off":
		return scalar(tInt, ev(0).Off())
	case "ref":
		return scalar(tInt, ev(0).L[0])
	case "tag":
		return scalar(tInt, ev(0).Tag())
	case "payload":
		return scalar(tInt, ev(0).IVal())
	case "old":
		n := env.withHeap(env.old)
		if env.pkg == "" && env.fr != nil && len(env.fr.params) == len(x.fn.Params) {
			// the function's own parameters denote their entry values inside old()
			names := map[string]nameBind{}
			for k, v := range n.names {
				names[k] = v
			}
			for i, p := range x.fn.Params {
				if _, bound := names[p.Name()]; bound {
					names[p.Name()] = nameBind{v: env.fr.params[i]}
				}
			}
			n2 := *n
			n2.names = names
			n = &n2
		}
		return x.evalSpec(n, args[0])
	case "prev":
		if env.st.prevHeap == nil {
			x.fail("spec: prev() outside a loop step clause")
		}
		n := *env
		n.heap = env.st.prevHeap
		n.names = env.st.prevNames
		return x.evalSpec(&n, args[0])
	case "deref":
		p := ev(0)
		return x.loadH(env.heap, x.addrOf(p))
	case "forallp", "forallps":
		srt := SInt
		var vt types.Type = tInt
		if name == "forallps" {
			srt = SStr
			vt = tString
		}
		bv := BVar(args[0].Op, srt)
		n := *env
		n.bound = map[string]*Val{}
		for k, v := range env.bound {
			n.bound[k] = v
		}
		n.bound[args[0].Op] = scalar(vt, bv)
		n.inQuant = true
		pat := x.evalSpec(&n, args[1]).L[0]
		body := x.evalSpecBool(&n, args[2])
		return scalar(tBool, Forall([]*Term{bv}, body, pat))
	case "forall", "exists", "foralls", "existss":
		if args[0].Kind != "ident" {
			x.fail("spec: %s needs a variable name", name)
		}
		srt := SInt
		var vt types.Type = tInt
		if name == "foralls" || name == "existss" {
			srt = SStr
			vt = tString
		}
		bv := BVar(args[0].Op, srt)
		n := *env
		n.bound = map[string]*Val{}
		for k, v := range env.bound {
			n.bound[k] = v
		}
		n.bound[args[0].Op] = scalar(vt, bv)
		n.inQuant = true
		body := x.evalSpecBool(&n, args[len(args)-1])
		if strings.HasPrefix(name, "forall") {
			// distribute over conjunctions so that each conjunct gets its own trigger
			one := 1 << 20
			var outs []*Term
			for _, part := range splitGoal(body, &one) {
				outs = append(outs, mkForallAuto(bv, args[0].Op, srt, part))
			}
			return scalar(tBool, And(outs...))
		}
		{
			pats := autoPatterns(bv, body)
			if len(pats) == 0 && srt == SInt {
				if off := findOffsetIndex(bv, body); off != nil {
					j := BVar(args[0].Op+"j", SInt)
					body2 := Subst(body, map[*Term]*Term{bv: Sub(j, off)})
					if p2 := autoPatterns(j, body2); len(p2) > 0 {
						return scalar(tBool, Exists([]*Term{j}, body2, p2...))
					}
				}
			}
			return scalar(tBool, Exists([]*Term{bv}, body, pats...))
		}
	case "has":
		m, k := ev(0), ev(1)
		return scalar(tBool, And(Ne(m.L[0], IntLit(0)), Select(x.specMapDom(env, m), mapKey(k))))
	case "mapAt":
		// mapAt(m, r, i): component i (0 = key set, 1.. = value leaves) of the map object with
		// reference r, of the same map type as m
		m, r := ev(0), ev(1)
		mt := m.T.Underlying().(*types.Map)
		ks, _ := mapSorts(mt)
		i, _ := strconv.Atoi(args[2].Op)
		if i == 0 {
			return scalar(tInt, Select(hget(env.heap, mapHeapName(mt)+"#dom", ArrSort(SInt, ArrSort(ks, SBool))), r.L[0]))
		}
		l := layout(mt.Elem())[i-1]
		return scalar(tInt, Select(hget(env.heap, mapHeapName(mt)+"#val"+l.Suffix, ArrSort(SInt, ArrSort(ks, l.Sort))), r.L[0]))
	case "boundMethodOf":
		// boundMethodOf(f, "Unlock", recv): f is the method value recv.<Method> (bound closure)
		f := ev(0)
		recv := ev(2)
		if f.Fn == nil || len(f.Fn.Bindings) != 1 {
			return scalar(tBool, False)
		}
		fname := f.Fn.Fn.Name()
		if !strings.HasPrefix(fname, args[1].Op+"$bound") {
			return scalar(tBool, False)
		}
		return scalar(tBool, Eq(f.Fn.Bindings[0].L[0], recv.L[0]))
	case "fresh":
		a := ev(0)
		alloc0 := hget(env.old, "$alloc", ArrSort(SInt, SBool))
		return scalar(tBool, And(Ne(a.L[0], IntLit(0)), Not(Select(alloc0, a.L[0]))))
	case "allocated":
		a := ev(0)
		alloc0 := hget(env.heap, "$alloc", ArrSort(SInt, SBool))
		return scalar(tBool, Select(alloc0, a.L[0]))
	case "cat":
		out := ev(0).L[0]
		for i := 1; i < len(args); i++ {
			out = SCat(out, ev(i).L[0])
		}
		return scalar(tString, out)
	case "sub":
		return scalar(tString, SSub(ev(0).L[0], ev(1).L[0], ev(2).L[0]))
	case "at":
		return scalar(tByte, SAt(ev(0).L[0], ev(1).L[0]))
	case "hasprefix":
		return scalar(tBool, SHasPrefix(ev(0).L[0], ev(1).L[0]))
	case "hassuffix":
		return scalar(tBool, SHasSuffix(ev(0).L[0], ev(1).L[0]))
	case "elems":
		// elems(s): the whole backing array (index -> element) of slice s in the current heap
		a := ev(0)
		el := a.T.Underlying().(*types.Slice).Elem()
		l := layout(el)[0]
		return scalar(tInt, Select(hget(env.heap, elemHeapName(el)+l.Suffix, ArrSort(SInt, ArrSort(SInt, l.Sort))), a.Arr()))
	case "bytesAt":
		// bytesAt(r): backing byte array with reference r
		a := ev(0)
		return scalar(tInt, Select(hget(env.heap, "E:uint8", ArrSort(SInt, ArrSort(SInt, SInt))), a.L[0]))
	case "pathdir":
		return scalar(tString, App("fn.path/filepath.Dir", SStr, ev(0).L[0]))
	case "sbyte":
		return scalar(tString, SByte(ev(0).L[0]))
	case "srune":
		return scalar(tString, SRune(ev(0).L[0]))
	case "str":
		a := ev(0)
		el := a.T.Underlying().(*types.Slice).Elem()
		l := layout(el)[0]
		arr := Select(hget(env.heap, elemHeapName(el)+l.Suffix, ArrSort(SInt, ArrSort(SInt, l.Sort))), a.Arr())
		return scalar(tString, SBytes(arr, a.Off(), a.Len()))
	case "isa":
		// isa(r, "pkg.T"): r is an allocated object of struct type T
		a := ev(0)
		t := x.findNamedType("*"+strings.TrimPrefix(args[1].Op, "*"), env.pkg)
		alloc := hget(env.heap, "$alloc", ArrSort(SInt, SBool))
		return scalar(tBool, And(Ne(a.L[0], IntLit(0)), Select(alloc, a.L[0]), Eq(Select(typeHeap, a.L[0]), IntLit(typeTag(t)))))
	case "hastype":
		// hastype(r, "pkg.T"): r is non-nil and denotes an object of struct type T
		a := ev(0)
		t := x.findNamedType("*"+strings.TrimPrefix(args[1].Op, "*"), env.pkg)
		return scalar(tBool, And(Ne(a.L[len(a.L)-1], IntLit(0)), Eq(Select(typeHeap, a.L[len(a.L)-1]), IntLit(typeTag(t)))))
	case "dyntype":
		a := ev(0)
		return scalar(tInt, Select(typeHeap, a.L[len(a.L)-1]))
	case "ptr":
		// ptr(r, "pkg.T"): the reference r as a *T
		a := ev(0)
		t := x.findNamedType("*"+strings.TrimPrefix(args[1].Op, "*"), env.pkg)
		return &Val{T: t, L: []*Term{a.L[len(a.L)-1]}}
	case "typeis":
		a := ev(0)
		var t types.Type
		func() {
			// a type of a package that is not loaded for this property: no value can have it
			defer func() {
				if r := recover(); r != nil {
					if ee, ok := r.(engineError); ok && strings.Contains(ee.msg, "unknown package for type") {
						t = nil
						return
					}
					panic(r)
				}
			}()
			t = x.findNamedType(args[1].Op, env.pkg)
		}()
		if t == nil {
			return scalar(tBool, False)
		}
		return scalar(tBool, Eq(a.Tag(), IntLit(typeTag(t))))
	case "as":
		a := ev(0)
		t := x.findNamedType(args[1].Op, env.pkg)
		ls := layout(t)
		if len(ls) == 1 && ls[0].Sort == SInt {
			return &Val{T: t, L: []*Term{a.IVal()}}
		}
		if len(ls) == 1 && ls[0].Sort == SStr {
			return &Val{T: t, L: []*Term{App("unbox.Str", SStr, a.IVal())}}
		}
		out := &Val{T: t}
		for _, l := range ls {
			out.L = append(out.L, Select(hget(env.heap, "B:"+typeStr(t)+l.Suffix, ArrSort(SInt, l.Sort)), a.IVal()))
		}
		return out
	case "ite":
		c := x.evalSpecBool(env, args[0])
		a, b := ev(1), ev(2)
		out := &Val{T: a.T}
		for i := range a.L {
			out.L = append(out.L, Ite(c, a.L[i], b.L[i]))
		}
		return out
	case "held", "heldW":
		return scalar(tBool, x.lockHeld(env, ev(0), 2))
	case "heldR":
		return scalar(tBool, x.lockHeld(env, ev(0), 1))
	case "locked":
		// held in any mode (true in the sequential pass)
		if !x.lockLayer() {
			return scalar(tBool, True)
		}
		return scalar(tBool, Ge(Select(lockArr(env.heap), ev(0).L[0]), IntLit(1)))
	case "closed":
		ch := ev(0)
		return scalar(tBool, Select(hget(env.heap, "$chanclosed", ArrSort(SInt, SBool)), ch.L[0]))
	case "rangeslice":
		// rangeslice(xs): the slice the current loop iterates over. For `for i := range xs` Go
		// evaluates xs once before the loop: that captured value; for any other loop form: xs as
		// it is now. Lets one invariant ("the loop still walks the live slice") fit both forms.
		cur := ev(0)
		h := x.evalHeader
		if h != nil && len(h.Instrs) > 0 && env.fr != nil {
			if ifi, ok := h.Instrs[len(h.Instrs)-1].(*ssa.If); ok {
				if bo, ok := ifi.Cond.(*ssa.BinOp); ok && bo.Op == token.LSS {
					if call, ok := bo.Y.(*ssa.Call); ok {
						if b, ok := call.Call.Value.(*ssa.Builtin); ok && b.Name() == "len" && len(call.Call.Args) == 1 && call.Block() != h {
							if types.Identical(call.Call.Args[0].Type(), cur.T) {
								return x.getVal(env.st, env.fr, call.Call.Args[0])
							}
						}
					}
				}
			}
		}
		return cur
	case "bound":
		// bound(name): the trace binding `name` fired on this path
		if args[0].Kind != "ident" {
			x.fail("spec: bound() needs a binding name")
		}
		if b, ok := env.st.ghost["$bound."+args[0].Op]; ok {
			return b
		}
		return scalar(tBool, False)
	case "visitedIn":
		// visitedIn(N, k): key k already visited by the N-th map range loop of this function
		n, _ := strconv.Atoi(args[0].Op)
		k := x.evalSpec(env, args[1])
		cnt := 0
		for _, b := range x.fn.Blocks {
			for _, in := range b.Instrs {
				if rg, ok := in.(*ssa.Range); ok {
					if _, isMap := rg.X.Type().Underlying().(*types.Map); !isMap {
						continue
					}
					cnt++
					if cnt == n {
						name := fmt.Sprintf("$visited.%s.%s", x.short, rg.Name())
						srt, ok := heapSorts[name]
						if !ok {
							x.fail("spec: visitedIn(%d, ...) before the loop was reached", n)
						}
						return scalar(tBool, Select(hget(env.heap, name, srt), mapKey(k)))
					}
				}
			}
		}
		x.fail("spec: visitedIn(%d, ...): no such map range loop", n)
	case "rangedmap":
		// rangedmap(N): the map object the N-th map range loop of this function iterates over
		// (Go evaluates the range expression once, before the loop)
		n, _ := strconv.Atoi(args[0].Op)
		cnt := 0
		for _, b := range x.fn.Blocks {
			for _, in := range b.Instrs {
				if rg, ok := in.(*ssa.Range); ok {
					if _, isMap := rg.X.Type().Underlying().(*types.Map); !isMap {
						continue
					}
					cnt++
					if cnt == n {
						return x.getVal(env.st, env.fr, rg.X)
					}
				}
			}
		}
		x.fail("spec: rangedmap(%d): no such map range loop", n)
	case "visited":
		// visited(k): key k already visited by the (single) map range loop of this function
		k := ev(0)
		for n, srt := range heapSorts {
			if strings.HasPrefix(n, "$visited."+x.short+".") {
				return scalar(tBool, Select(hget(env.heap, n, srt), k.L[0]))
			}
		}
		x.fail("spec: visited() without a map range loop")
	case "itercount":
		return scalar(tInt, hget(env.heap, "$itercnt."+x.short, SInt))
	case "int":
		return scalar(tInt, ev(0).L[0])
	case "nonneg":
		return scalar(tBool, Le(IntLit(0), ev(0).L[0]))
	}
	if gt, ok := x.eng.db.GhostFields[name]; ok {
		a := ev(0)
		key := a.L[len(a.L)-1]
		srt := specSort(gt)
		var rt types.Type = tInt
		switch srt {
		case SBool:
			rt = tBool
		case SStr:
			rt = tString
		}
		return scalar(rt, Select(hget(env.heap, "$g."+name, ArrSort(SInt, srt)), key))
	}
	// user spec functions
	if sf, ok := x.eng.db.Specs[name]; ok {
		if len(args) != len(sf.Params) {
			x.fail("spec: %s expects %d arguments", name, len(sf.Params))
		}
		if sf.Def != nil {
			n := *env
			n.bound = map[string]*Val{}
			for k, v := range env.bound {
				n.bound[k] = v
			}
			for i, p := range sf.Params {
				n.bound[p] = ev(i)
			}
			res := x.evalSpec(&n, sf.Def)
			if sf.Opaque && len(res.L) == 1 && res.L[0].Sort == SBool {
				return scalar(tBool, makeOpaque(name, res.L[0]))
			}
			return res
		}
		var leaves []*Term
		for i := range args {
			a := ev(i)
			want := sf.PTypes[i]
			switch want {
			case "iface":
				leaves = append(leaves, a.L...)
			default:
				leaves = append(leaves, a.L[0])
			}
		}
		rs := specSort(sf.Ret)
		var rt types.Type = tInt
		switch rs {
		case SBool:
			rt = tBool
		case SStr:
			rt = tString
		}
		return scalar(rt, App("spec."+name, rs, leaves...))
	}
	// a Go function of the repository whose contract declares it pure: the same uninterpreted
	// function of its arguments that its call sites use
	for key, con := range x.eng.db.Funcs {
		if !con.Pure || (con.Func != name && shortPkg(con.Pkg)+"."+con.Func != name) {
			continue
		}
		for _, p := range x.eng.prog.AllPackages() {
			if p.Pkg.Path() != con.Pkg {
				continue
			}
			if fn := p.Func(con.Func); fn != nil {
				var as []*Val
				for i := range args {
					as = append(as, ev(i))
				}
				var rt types.Type = fn.Signature.Results()
				if fn.Signature.Results().Len() == 1 {
					rt = fn.Signature.Results().At(0).Type()
				}
				return x.pureResult(key, rt, as)
			}
		}
	}
	// a pure interface method (e.g. Name(info) for os.FileInfo.Name): the same uninterpreted
	// function of the receiver that its call sites use
	if len(args) >= 1 {
		recv := ev(0)
		if it, ok := recv.T.Underlying().(*types.Interface); ok {
			for i := 0; i < it.NumMethods(); i++ {
				m := it.Method(i)
				if m.Name() != name {
					continue
				}
				for key, con := range x.eng.db.Ifaces {
					if con.Pure && strings.HasSuffix(key, "."+name) && (key == typeStrQ(recv.T)+"."+name || key == typeStrQ(m.Type().(*types.Signature).Recv().Type())+"."+name) {
						sig := m.Type().(*types.Signature)
						var rt types.Type = sig.Results()
						if sig.Results().Len() == 1 {
							rt = sig.Results().At(0).Type()
						}
						as := []*Val{recv}
						for i := 1; i < len(args); i++ {
							as = append(as, ev(i))
						}
						return x.pureResult(key, rt, as)
					}
				}
			}
		}
	}
	x.fail("spec: unknown function %s", name)
	return nil
}

// mkForallAuto quantifies body over bv with an automatically chosen trigger; integer
// indices of the form (T + k) are re-indexed over j = T + k when no trigger exists otherwise.
func mkForallAuto(bv *Term, vname string, srt Sort, body *Term) *Term {
	if !mentions(body, bv) {
		return body
	}
	pats := autoPatterns(bv, body)
	if len(pats) == 0 && body.Kind == KQuant && body.Op == "forall" {
		pats = autoPatterns(bv, body.Args[0])
	}
	if len(pats) == 0 && srt == SInt {
		if off := findOffsetIndex(bv, body); off != nil {
			j := BVar(vname+"j", SInt)
			body2 := Subst(body, map[*Term]*Term{bv: Sub(j, off)})
			p2 := autoPatterns(j, body2)
			if len(p2) == 0 && body2.Kind == KQuant && body2.Op == "forall" {
				p2 = autoPatterns(j, body2.Args[0])
			}
			// re-indexed even without a usable trigger: the form must not depend on the
			// context (opaque definitions are matched by their skeleton)
			return Forall([]*Term{j}, body2, p2...)
		}
	}
	if len(pats) > 0 && srt == SInt {
		// a body that relates a[off + k] to b[k] gets its trigger on b[k] only; instances reached
		// through a[..] terms (a skolem index of a goal over a) need the re-indexed twin as well
		if off := findOffsetIndex(bv, body); off != nil {
			j := BVar(vname+"j", SInt)
			body2 := Subst(body, map[*Term]*Term{bv: Sub(j, off)})
			p2 := autoPatterns(j, body2)
			if len(p2) > 0 {
				return And(Forall([]*Term{bv}, body, pats...), Forall([]*Term{j}, body2, p2...))
			}
		}
	}
	if len(pats) == 0 && os.Getenv("GOWP_DEBUG_PAT") != "" {
		fmt.Fprintf(os.Stderr, "no trigger: off=%v body=%.300s\n", findOffsetIndex(bv, body), body.String())
	}
	return Forall([]*Term{bv}, body, pats...)
}

// patternOK: triggers may contain only uninterpreted applications, selects/stores and leaves.
func patternOK(t *Term) bool {
	ok := true
	seen := map[*Term]bool{}
	var rec func(t *Term)
	rec = func(t *Term) {
		if seen[t] || !ok {
			return
		}
		seen[t] = true
		if t.Kind == KBuiltin && t.Op != "select" && t.Op != "store" {
			ok = false
			return
		}
		if t.Kind == KQuant {
			ok = false
			return
		}
		for _, a := range t.Args {
			rec(a)
		}
	}
	rec(t)
	return ok
}

// findOffsetIndex finds T in an index expression (T + bv) used by a select/application.
func findOffsetIndex(bv *Term, body *Term) *Term {
	var found *Term
	seen := map[*Term]bool{}
	var rec func(t *Term)
	rec = func(t *Term) {
		if seen[t] || !t.hasBV || found != nil {
			return
		}
		seen[t] = true
		if t.Kind == KApp || (t.Kind == KBuiltin && t.Op == "select") {
			for _, a := range t.Args {
				if a.Kind == KBuiltin && a.Op == "+" && len(a.Args) == 2 {
					if a.Args[1] == bv && !mentions(a.Args[0], bv) {
						found = a.Args[0]
						return
					}
					if a.Args[0] == bv && !mentions(a.Args[1], bv) {
						found = a.Args[1]
						return
					}
				}
			}
		}
		for _, a := range t.Args {
			rec(a)
		}
	}
	rec(body)
	return found
}

// autoPatterns picks trigger terms for a quantified body: applications / selects that
// mention the bound variable directly.
func autoPatterns(bv *Term, body *Term) []*Term {
	var pats []*Term
	seen := map[*Term]bool{}
	var rec func(t *Term)
	rec = func(t *Term) {
		if seen[t] || !t.hasBV {
			return
		}
		seen[t] = true
		if t.Kind == KQuant {
			return
		}
		direct := false
		for _, a := range t.Args {
			if a == bv {
				direct = true
			}
		}
		if direct && (t.Kind == KApp || (t.Kind == KBuiltin && t.Op == "select")) && patternOK(t) {
			pats = append(pats, t)
			return
		}
		for _, a := range t.Args {
			rec(a)
		}
	}
	rec(body)
	if len(pats) > 1 {
		pats = pats[:1]
	}
	return pats
}

var _ = strconv.Itoa
var _ = fmt.Sprintf
var _ ssa.Value
