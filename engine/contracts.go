package main

// Contract files: comment-only Go files (//go:build verif) named verif_contracts.go in
// the packages of /repo, plus library/extern specs under /verif/spec/*.spec.
// Blocks are keyed by function name and loop ordinal.

import (
	"bufio"
	"fmt"
	"os"
	"path/filepath"
	"sort"
	"strconv"
	"strings"
)

type Clause struct {
	Kind  string // requires ensures panics_if invariant decreases at_call trace_ensures ...
	Props []string
	Text  string
	Expr  *SExpr
	Cond  *SExpr // for conditional clauses (trace_ensures cond : pattern)
	Arg   string // at_call: callee pattern; trace: pattern
	Loop  int
	Line  string // file:line
	Ord   int    // ordinal among clauses of the same kind in the block
}

func (c *Clause) appliesTo(prop string) bool {
	if len(c.Props) == 0 {
		return true
	}
	for _, p := range c.Props {
		if p == prop {
			return true
		}
	}
	return false
}

type TraceDecl struct {
	Pattern string // callee name pattern (suffix match on qualified name or method name)
	Event   string // event label; may contain $0,$1 for constant args
	As      string // bind result value to this ghost name
	When    *SExpr // bind only when this holds ($k = call arguments, earlier binds visible)
	Props   []string
}

type Contract struct {
	Pkg         string // package path
	Func        string // function key, e.g. "(*Dir).addNode", "ReadArguments", "Try$1"
	Props       []string
	Clauses     []*Clause
	Modifies    []string
	ModAll      bool
	HasMod      bool
	KeepStable  bool // `keeps stable [except c...]`: writes no stable / private field of a pre-existing object other than the listed components (checked as a frame)
	KeepExcept  []string
	CapturesRO  bool // `captures readonly`: a closure that only reads the variables it captures (no store through a captured cell, no escape of its address)
	Pure        bool
	Trusted     bool
	Extern      bool
	Inline      bool // callers inline the body instead of using the contract
	Traces      []*TraceDecl
	Allocates   []string // tracked struct types this function may allocate
	Mode        string
	OnlyLayers  map[string]bool
	SkipKinds   map[string]bool
	File        string
	ParamNames  []string // for extern/iface contracts: declared parameter names
	ResultNames []string
	Used        bool
}

func (c *Contract) Key() string { return c.Pkg + "." + c.Func }

func (c *Contract) ClausesOf(kind string) []*Clause {
	var out []*Clause
	for _, cl := range c.Clauses {
		if cl.Kind == kind {
			out = append(out, cl)
		}
	}
	return out
}

type GuardDecl struct {
	Field    string
	Lock     string // field name of the lock in the same struct ("mu"), or "immutable"/"owned"/"stable"
	ChanOnly bool   // `chan f guarded_by mu`: only the closed state of the channel in f is guarded
}

type TypeSpec struct {
	Private  []string // fields (and, for maps, their contents) touched only by the declaring package
	Pkg      string
	Name     string
	Guards   []GuardDecl
	Monitors map[string][]*Clause // lock field -> invariants (expr over `self`)
}

type SpecFunc struct {
	Name   string
	Params []string // names
	PTypes []string // "int","bool","string","ref"
	Ret    string
	Def    *SExpr // non-nil for `define`
	Opaque bool   // quantified conjuncts are abstracted by predicate symbols with definitional axioms
}

type Axiom struct {
	Name string
	Expr *SExpr
	Text string
}

type TrackDecl struct {
	Props []string
	Types []string
}

type ContractDB struct {
	Funcs       map[string]*Contract // key: pkgpath.FuncKey
	Ifaces      map[string]*Contract // key: pkgpath.Iface.Method
	FuncTypes   map[string]*Contract // key: pkgpath.TypeName (named function types)
	Types       map[string]*TypeSpec // key: pkgpath.Type
	Specs       map[string]*SpecFunc
	Axioms      []*Axiom
	Globals     map[string]string // pkg.Name -> "nonnil"
	GhostFields map[string]string // name -> spec type
	Tracked     []TrackDecl       // struct types (typeStr form) whose dynamic type is tracked in $type, per property
	Files       []string
	Errors      []string
}

func NewContractDB() *ContractDB {
	return &ContractDB{Funcs: map[string]*Contract{}, Ifaces: map[string]*Contract{}, FuncTypes: map[string]*Contract{}, Types: map[string]*TypeSpec{}, Specs: map[string]*SpecFunc{}, Globals: map[string]string{}, GhostFields: map[string]string{}}
}

func parseProps(s string) (props []string, rest string) {
	s = strings.TrimSpace(s)
	if strings.HasPrefix(s, "[") {
		end := strings.Index(s, "]")
		if end > 0 {
			for _, p := range strings.FieldsFunc(s[1:end], func(r rune) bool { return r == ',' || r == ' ' }) {
				props = append(props, p)
			}
			return props, strings.TrimSpace(s[end+1:])
		}
	}
	return nil, s
}

// LoadContractFile parses one contract file. pkgPath is the Go package path the
// unqualified function names belong to ("" for spec library files, which use
// qualified names).
func (db *ContractDB) LoadContractFile(file, pkgPath string) {
	f, err := os.Open(file)
	if err != nil {
		db.Errors = append(db.Errors, err.Error())
		return
	}
	defer f.Close()
	db.Files = append(db.Files, file)
	sc := bufio.NewScanner(f)
	sc.Buffer(make([]byte, 1<<20), 1<<20)
	var cur *Contract
	var curType *TypeSpec
	lineNo := 0
	var pending string
	var pendingLine int
	errf := func(format string, a ...interface{}) {
		db.Errors = append(db.Errors, fmt.Sprintf("%s:%d: %s", file, lineNo, fmt.Sprintf(format, a...)))
	}
	process := func(line string, ln int) {
		loc := fmt.Sprintf("%s:%d", filepath.Base(file), ln)
		fields := strings.Fields(line)
		if len(fields) == 0 {
			return
		}
		kw := fields[0]
		rest := strings.TrimSpace(line[len(kw):])
		switch kw {
		case "func", "extern", "iface", "functype":
			name, props, pnames, rnames := parseFuncHeader(rest)
			c := &Contract{Func: name, Props: props, File: file, ParamNames: pnames, ResultNames: rnames}
			curType = nil
			cur = c
			switch kw {
			case "func":
				c.Pkg = pkgPath
				if pkgPath == "" {
					// qualified name pkgpath.Func
					c.Pkg, c.Func = splitQualified(name)
				}
				db.Funcs[c.Key()] = c
			case "extern":
				c.Extern = true
				c.Trusted = true
				c.Pkg, c.Func = splitQualified(name)
				db.Funcs[c.Key()] = c
			case "iface":
				c.Extern = true
				c.Trusted = true
				c.Pkg, c.Func = splitQualified(name)
				db.Ifaces[c.Key()] = c
			case "functype":
				c.Extern = true
				c.Trusted = true
				c.Pkg, c.Func = splitQualified(name)
				db.FuncTypes[c.Key()] = c
			}
		case "type":
			cur = nil
			name := strings.Fields(rest)[0]
			pk := pkgPath
			if pkgPath == "" {
				pk, name = splitQualified(name)
			}
			if prev, ok := db.Types[pk+"."+name]; ok {
				// a second block for the same type adds to the first one
				curType = prev
			} else {
				curType = &TypeSpec{Pkg: pk, Name: name, Monitors: map[string][]*Clause{}}
				db.Types[pk+"."+name] = curType
			}
		case "private":
			if curType == nil || len(fields) < 2 {
				errf("bad private clause")
				return
			}
			curType.Private = append(curType.Private, fields[1])
		case "chan":
			if curType == nil || len(fields) < 4 || fields[2] != "guarded_by" {
				errf("bad chan clause")
				return
			}
			curType.Guards = append(curType.Guards, GuardDecl{Field: fields[1], Lock: fields[3], ChanOnly: true})
		case "field":
			if curType == nil {
				errf("field outside type block")
				return
			}
			// field f guarded_by mu | field f immutable
			if len(fields) >= 4 && fields[2] == "guarded_by" {
				curType.Guards = append(curType.Guards, GuardDecl{Field: fields[1], Lock: fields[3]})
			} else if len(fields) >= 3 {
				curType.Guards = append(curType.Guards, GuardDecl{Field: fields[1], Lock: fields[2]})
			} else {
				errf("bad field clause")
			}
		case "monitor":
			if curType == nil || len(fields) < 4 || fields[2] != "invariant" {
				errf("bad monitor clause")
				return
			}
			text := strings.TrimSpace(strings.SplitN(line, "invariant", 2)[1])
			e, err := ParseSpecExpr(text)
			if err != nil {
				errf("%v", err)
				return
			}
			curType.Monitors[fields[1]] = append(curType.Monitors[fields[1]], &Clause{Kind: "monitor", Text: text, Expr: e, Line: loc})
		case "spec":
			// spec func Name(a string, b int) bool
			sf, err := parseSpecFuncDecl(strings.TrimSpace(strings.TrimPrefix(rest, "func")))
			if err != nil {
				errf("%v", err)
				return
			}
			db.Specs[sf.Name] = sf
		case "define":
			// define Name(a string, b int) bool = expr
			parts := strings.SplitN(rest, "=", 2)
			// careful: '=' may appear in '==' within the expr; split at first " = "
			if k := strings.Index(rest, " = "); k >= 0 {
				parts = []string{rest[:k], rest[k+3:]}
			}
			if len(parts) != 2 {
				errf("bad define")
				return
			}
			opaque := false
			if strings.HasPrefix(strings.TrimSpace(parts[0]), "opaque ") {
				opaque = true
				parts[0] = strings.TrimPrefix(strings.TrimSpace(parts[0]), "opaque ")
			}
			sf, err := parseSpecFuncDecl(strings.TrimSpace(parts[0]))
			if err != nil {
				errf("%v", err)
				return
			}
			sf.Opaque = opaque
			e, err := ParseSpecExpr(strings.TrimSpace(parts[1]))
			if err != nil {
				errf("%v", err)
				return
			}
			sf.Def = e
			db.Specs[sf.Name] = sf
		case "axiom":
			k := strings.Index(rest, ":")
			if k < 0 {
				errf("axiom needs a name")
				return
			}
			text := strings.TrimSpace(rest[k+1:])
			e, err := ParseSpecExpr(text)
			if err != nil {
				errf("%v", err)
				return
			}
			db.Axioms = append(db.Axioms, &Axiom{Name: strings.TrimSpace(rest[:k]), Expr: e, Text: text})
		case "global":
			if len(fields) >= 3 {
				db.Globals[fields[1]] = fields[2]
			}
		case "tracktype":
			ps, r := parseProps(rest)
			db.Tracked = append(db.Tracked, TrackDecl{Props: ps, Types: strings.Fields(r)})
		case "ghostfield":
			if len(fields) >= 3 {
				db.GhostFields[fields[1]] = fields[2]
			} else {
				errf("ghostfield name type")
			}
		default:
			if cur == nil {
				errf("clause %q outside func block", kw)
				return
			}
			props, r := parseProps(rest)
			switch kw {
			case "requires", "ensures", "panics_if", "lemma", "conc_ensures":
				e, err := ParseSpecExpr(r)
				if err != nil {
					errf("%v", err)
					return
				}
				cl := &Clause{Kind: kw, Props: props, Text: r, Expr: e, Line: loc}
				cl.Ord = len(cur.ClausesOf(kw)) + 1
				cur.Clauses = append(cur.Clauses, cl)
			case "loop":
				// loop N invariant|decreases expr
				fs := strings.Fields(r)
				if len(fs) < 3 {
					errf("bad loop clause")
					return
				}
				n, err := strconv.Atoi(fs[0])
				if err != nil {
					errf("bad loop ordinal")
					return
				}
				kind := fs[1]
				switch kind {
				case "invariant", "decreases", "step", "exit", "trace_step", "trace_entry":
				default:
					errf("unknown loop clause kind %q", kind)
					return
				}
				text := strings.TrimSpace(strings.SplitN(r, kind, 2)[1])
				p2, text2 := parseProps(text)
				var cond *SExpr
				arg := ""
				if kind == "trace_step" || kind == "trace_entry" {
					// loop N trace_step <cond> : <regexp over the events of one iteration>
					// loop N trace_entry <cond> : <regexp over the events from function entry to the loop>
					k := strings.Index(text2, " : ")
					if k < 0 {
						errf("trace_step needs ' : '")
						return
					}
					arg = strings.TrimSpace(text2[k+3:])
					text2 = strings.TrimSpace(text2[:k])
				}
				e, err := ParseSpecExpr(text2)
				if err != nil {
					errf("%v", err)
					return
				}
				if kind == "trace_step" || kind == "trace_entry" {
					cond = e
				}
				cl := &Clause{Kind: kind, Props: p2, Text: text2, Expr: e, Cond: cond, Arg: arg, Loop: n, Line: loc}
				cnt := 0
				for _, c2 := range cur.Clauses {
					if c2.Kind == kind && c2.Loop == n {
						cnt++
					}
				}
				cl.Ord = cnt + 1
				cur.Clauses = append(cur.Clauses, cl)
			case "at_store":
				// at_store <varname> requires <expr over $new, $old>
				k := strings.Index(r, " requires ")
				if k < 0 {
					errf("at_store needs 'requires'")
					return
				}
				text := strings.TrimSpace(r[k+len(" requires "):])
				e, err := ParseSpecExpr(text)
				if err != nil {
					errf("%v", err)
					return
				}
				cl := &Clause{Kind: "at_store", Props: props, Text: text, Expr: e, Arg: strings.TrimSpace(r[:k]), Line: loc}
				cl.Ord = len(cur.ClausesOf("at_store")) + 1
				cur.Clauses = append(cur.Clauses, cl)
			case "at_call", "conc_at_call":
				// at_call <pattern> requires <expr>; conc_at_call: the same, decided in the concurrent pass
				// (lock layer) - for facts that must hold at the call whatever other goroutines do
				k := strings.Index(r, " requires ")
				if k < 0 {
					errf("at_call needs 'requires'")
					return
				}
				pat := strings.TrimSpace(r[:k])
				text := strings.TrimSpace(r[k+len(" requires "):])
				e, err := ParseSpecExpr(text)
				if err != nil {
					errf("%v", err)
					return
				}
				// at_call <pattern> [in loop N | outside loops] requires ...: only those call sites
				siteLoop := 0
				if m := strings.Index(pat, " in loop "); m >= 0 {
					n, err := strconv.Atoi(strings.TrimSpace(pat[m+9:]))
					if err != nil {
						errf("bad loop number in at_call")
						return
					}
					siteLoop = n
					pat = strings.TrimSpace(pat[:m])
				} else if strings.HasSuffix(pat, " outside loops") {
					siteLoop = -1
					pat = strings.TrimSpace(strings.TrimSuffix(pat, " outside loops"))
				}
				cl := &Clause{Kind: kw, Props: props, Text: text, Expr: e, Arg: pat, Loop: siteLoop, Line: loc}
				cl.Ord = len(cur.ClausesOf(kw)) + 1
				cur.Clauses = append(cur.Clauses, cl)
			case "only_calls":
				// only_calls <receiver-expr> : M1 M2 M3   (effect role: only these methods may be invoked on the receiver)
				k := strings.Index(r, ":")
				if k < 0 {
					errf("only_calls needs ':'")
					return
				}
				// the role may be conditional: only_calls <expr> unless <cond> : methods
				recvText := strings.TrimSpace(r[:k])
				var unless *SExpr
				if u := strings.Index(recvText, " unless "); u >= 0 {
					ue, err := ParseSpecExpr(strings.TrimSpace(recvText[u+8:]))
					if err != nil {
						errf("%v", err)
						return
					}
					unless = ue
					recvText = strings.TrimSpace(recvText[:u])
				}
				e, err := ParseSpecExpr(recvText)
				if err != nil {
					errf("%v", err)
					return
				}
				cl := &Clause{Kind: "only_calls", Props: props, Text: r, Expr: e, Cond: unless, Arg: strings.TrimSpace(r[k+1:]), Line: loc}
				cl.Ord = len(cur.ClausesOf("only_calls")) + 1
				cur.Clauses = append(cur.Clauses, cl)
			case "trace":
				// trace <calleePattern> as <Event> [bind <name>]
				var when *SExpr
				if k := strings.Index(r, " when "); k >= 0 {
					we, err := ParseSpecExpr(strings.TrimSpace(r[k+6:]))
					if err != nil {
						errf("%v", err)
						return
					}
					when = we
					r = r[:k]
				}
				fs := strings.Fields(r)
				td := &TraceDecl{Props: props, When: when}
				if len(fs) >= 1 {
					td.Pattern = fs[0]
					td.Event = fs[0]
				}
				for i := 1; i+1 < len(fs); i += 2 {
					switch fs[i] {
					case "as":
						td.Event = fs[i+1]
					case "bind":
						td.As = fs[i+1]
					}
				}
				cur.Traces = append(cur.Traces, td)
			case "trace_ensures", "trace_panics":
				// trace_ensures <cond> : <regexp over event tokens>
				k := strings.Index(r, " : ")
				if k < 0 {
					errf("trace_ensures needs ' : '")
					return
				}
				ce, err := ParseSpecExpr(strings.TrimSpace(r[:k]))
				if err != nil {
					errf("%v", err)
					return
				}
				cl := &Clause{Kind: kw, Props: props, Text: r, Cond: ce, Arg: strings.TrimSpace(r[k+3:]), Line: loc}
				cl.Ord = len(cur.ClausesOf(kw)) + 1
				cur.Clauses = append(cur.Clauses, cl)
			case "modifies":
				cur.HasMod = true
				for _, m := range strings.FieldsFunc(r, func(c rune) bool { return c == ',' || c == ' ' }) {
					if m == "*" {
						cur.ModAll = true
					} else {
						cur.Modifies = append(cur.Modifies, m)
					}
				}
			case "keeps":
				fs := strings.FieldsFunc(r, func(c rune) bool { return c == ',' || c == ' ' })
				if len(fs) == 0 || fs[0] != "stable" || (len(fs) > 1 && (fs[1] != "except" || len(fs) < 3)) {
					errf("keeps: expected `keeps stable [except component, ...]`")
					return
				}
				cur.KeepStable = true
				if len(fs) > 2 {
					cur.KeepExcept = append(cur.KeepExcept, fs[2:]...)
				}
			case "captures":
				if strings.TrimSpace(r) != "readonly" {
					errf("captures: expected `captures readonly`")
					return
				}
				cur.CapturesRO = true
			case "allocates":
				cur.Allocates = append(cur.Allocates, strings.FieldsFunc(r, func(c rune) bool { return c == ',' || c == ' ' })...)
			case "pure":
				cur.Pure = true
				cur.HasMod = true
			case "trusted":
				cur.Trusted = true
			case "inline":
				cur.Inline = true
			case "mode":
				cur.Mode = strings.TrimSpace(r)
			case "skip":
				if cur.SkipKinds == nil {
					cur.SkipKinds = map[string]bool{}
				}
				for _, l := range strings.Fields(r) {
					cur.SkipKinds[l] = true
				}
			case "layers":
				cur.OnlyLayers = map[string]bool{}
				for _, l := range strings.Fields(r) {
					cur.OnlyLayers[l] = true
				}
			case "holds", "releases", "acquires", "locks":
				// acquires <lock> [when <cond>]; locks <lock>: the function takes and releases this lock itself
				// (a caller that holds it would deadlock on a writer queued in between)
				var cond *SExpr
				lockText := r
				if k := strings.Index(r, " when "); k >= 0 && kw == "acquires" {
					ce, err := ParseSpecExpr(strings.TrimSpace(r[k+6:]))
					if err != nil {
						errf("%v", err)
						return
					}
					cond = ce
					lockText = strings.TrimSpace(r[:k])
				}
				e, err := ParseSpecExpr(lockText)
				if err != nil {
					errf("%v", err)
					return
				}
				cl := &Clause{Kind: kw, Props: props, Text: r, Expr: e, Cond: cond, Line: loc}
				cl.Ord = len(cur.ClausesOf(kw)) + 1
				cur.Clauses = append(cur.Clauses, cl)
			default:
				errf("unknown clause keyword %q", kw)
			}
		}
	}
	for sc.Scan() {
		lineNo++
		line := sc.Text()
		t := strings.TrimSpace(line)
		if !strings.HasPrefix(t, "//@") {
			if pending != "" {
				process(pending, pendingLine)
				pending = ""
			}
			continue
		}
		body := strings.TrimSpace(t[3:])
		if strings.HasPrefix(body, "...") { // continuation line
			pending += " " + strings.TrimSpace(body[3:])
			continue
		}
		if pending != "" {
			process(pending, pendingLine)
		}
		pending = body
		pendingLine = lineNo
	}
	if pending != "" {
		process(pending, pendingLine)
	}
}

// parseFuncHeader parses "<key> [props] (params) (results)" where key is a function key
// without spaces, e.g. ReadArguments, (*Dir).addNode, Try$1, strings.HasSuffix.
func parseFuncHeader(s string) (name string, props, pnames, rnames []string) {
	s = strings.TrimSpace(s)
	i := 0
	if strings.HasPrefix(s, "(") {
		// method key: up to first whitespace
		for i < len(s) && s[i] != ' ' && s[i] != '\t' {
			i++
		}
		// but a signature may be glued: (*T).M(a, b)
		if k := strings.Index(s[:i], ")."); k >= 0 {
			if j := strings.Index(s[k+2:i], "("); j >= 0 {
				i = k + 2 + j
			}
		}
	} else {
		for i < len(s) && s[i] != ' ' && s[i] != '\t' && s[i] != '(' && s[i] != '[' {
			i++
		}
	}
	name = s[:i]
	rest := strings.TrimSpace(s[i:])
	for rest != "" {
		switch rest[0] {
		case '[':
			var p []string
			p, rest = parseProps(rest)
			props = append(props, p...)
		case '(':
			j := strings.Index(rest, ")")
			if j < 0 {
				return
			}
			var names []string
			for _, p := range strings.Split(rest[1:j], ",") {
				if p = strings.TrimSpace(p); p != "" {
					names = append(names, strings.Fields(p)[0])
				}
			}
			if pnames == nil {
				pnames = names
				if pnames == nil {
					pnames = []string{}
				}
			} else {
				rnames = names
			}
			rest = strings.TrimSpace(rest[j+1:])
		default:
			return
		}
	}
	return
}

func splitQualified(name string) (pkg, fn string) {
	// "strings.HasSuffix", "github.com/x/y.Func", "io.Reader.Read", "(*sync.Mutex).Lock"
	if strings.HasPrefix(name, "(") {
		// (*pkg.T).M or (pkg.T).M
		end := strings.Index(name, ")")
		inner := name[1:end]
		star := ""
		if strings.HasPrefix(inner, "*") {
			star = "*"
			inner = inner[1:]
		}
		k := strings.LastIndex(inner, ".")
		return inner[:k], "(" + star + inner[k+1:] + ")" + name[end+1:]
	}
	// find the package path: up to the first '.' after the last '/'
	slash := strings.LastIndex(name, "/")
	k := strings.Index(name[slash+1:], ".")
	if k < 0 {
		return "", name
	}
	k += slash + 1
	return name[:k], name[k+1:]
}

func parseSpecFuncDecl(s string) (*SpecFunc, error) {
	i := strings.Index(s, "(")
	j := strings.LastIndex(s, ")")
	if i < 0 || j < i {
		return nil, fmt.Errorf("bad spec func declaration %q", s)
	}
	sf := &SpecFunc{Name: strings.TrimSpace(s[:i]), Ret: strings.TrimSpace(s[j+1:])}
	for _, p := range strings.Split(s[i+1:j], ",") {
		p = strings.TrimSpace(p)
		if p == "" {
			continue
		}
		fs := strings.Fields(p)
		if len(fs) != 2 {
			return nil, fmt.Errorf("bad parameter %q in %q", p, s)
		}
		sf.Params = append(sf.Params, fs[0])
		sf.PTypes = append(sf.PTypes, fs[1])
	}
	if sf.Ret == "" {
		sf.Ret = "bool"
	}
	return sf, nil
}

func specSort(t string) Sort {
	switch t {
	case "int", "ref", "byte":
		return SInt
	case "bool":
		return SBool
	case "string":
		return SStr
	case "intarr":
		return ArrSort(SInt, SInt)
	case "strarr":
		return ArrSort(SInt, SStr)
	case "strset":
		return ArrSort(SStr, SBool)
	}
	panic("unknown spec type " + t)
}

// LoadAll loads every verif_contracts.go under repo and every *.spec under specDir.
func (db *ContractDB) LoadAll(repo, specDir string) {
	filepath.Walk(repo, func(p string, info os.FileInfo, err error) error {
		if err != nil {
			return nil
		}
		if info.IsDir() && (info.Name() == ".git" || info.Name() == "vendor") {
			return filepath.SkipDir
		}
		if !info.IsDir() && info.Name() == "verif_contracts.go" {
			rel, _ := filepath.Rel(repo, filepath.Dir(p))
			pkg := repoPrefix
			if rel != "." {
				pkg += "/" + filepath.ToSlash(rel)
			}
			db.LoadContractFile(p, pkg)
		}
		return nil
	})
	specs, _ := filepath.Glob(filepath.Join(specDir, "*.spec"))
	sort.Strings(specs)
	for _, s := range specs {
		db.LoadContractFile(s, "")
	}
}
