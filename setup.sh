#!/bin/bash
# Builds the VC generator offline (x/tools v0.29.0 from the module cache).
set -e
cd "$(dirname "$0")/engine"
export GOFLAGS=-mod=mod GOPROXY=off GOSUMDB=off GOTOOLCHAIN=local CGO_ENABLED=0
mkdir -p ../bin
go build -o ../bin/gowp .
echo "built /verif/bin/gowp"
