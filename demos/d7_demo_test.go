package memfs

import "testing"

func TestD7WriterReplaces(t *testing.T) {
	fs, _ := NewFilespace()
	fs.WriteFile("f", []byte("old-long-content"), 0777)
	w, err := fs.Writer("f")
	if err != nil {
		t.Fatal(err)
	}
	w.Write([]byte("new"))
	w.Close()
	got, _ := fs.ReadFile("f")
	if string(got) != "new" {
		t.Errorf("D7: writer on an existing file does not replace its content: %q", got)
	}
}
