package fscache

import (
	"sort"
	"strings"
	"testing"

	"github.com/goatcms/goatcore/filesystem"
	"github.com/goatcms/goatcore/filesystem/filespace/memfs"
)

// C06 / C07: four histories found by the bounded stand-in (bounded/c06) on which the cache and
// the directly modified tree disagreed before the repairs of this session. Each test applies the
// same operations to a cache over a remote and directly to a copy of the initial remote.

func d6Tree(fs filesystem.Filespace) string {
	var out []string
	var walk func(dir string)
	walk = func(dir string) {
		infos, err := fs.ReadDir(dir)
		if err != nil {
			return
		}
		for _, i := range infos {
			p := i.Name()
			if dir != "" {
				p = dir + "/" + i.Name()
			}
			if i.IsDir() {
				out = append(out, p+"/")
				walk(p)
			} else {
				d, _ := fs.ReadFile(p)
				out = append(out, p+"="+string(d))
			}
		}
	}
	walk("")
	sort.Strings(out)
	return strings.Join(out, " ")
}

func d6Initial() filesystem.Filespace {
	fs, _ := memfs.NewFilespace()
	fs.WriteFile("a/b", []byte("AB"), 0666)
	fs.WriteFile("d/x", []byte("DX"), 0666)
	fs.WriteFile("f", []byte("F"), 0666)
	return fs
}

func d6Run(t *testing.T, commits int, ops ...func(fs filesystem.Filespace) error) {
	direct, remote := d6Initial(), d6Initial()
	cache, _ := NewMemCache(remote)
	for i, o := range ops {
		if err := o(direct); err != nil {
			t.Fatalf("operation %d fails when applied directly: %v", i, err)
		}
		if err := o(cache); err != nil {
			t.Fatalf("operation %d fails through the cache: %v", i, err)
		}
		if a, b := d6Tree(cache), d6Tree(direct); a != b {
			t.Errorf("after operation %d the cache shows %q, the directly modified tree is %q", i, a, b)
		}
	}
	for k := 0; k < commits; k++ {
		if err := cache.Commit(); err != nil {
			t.Fatalf("commit %d: %v", k+1, err)
		}
		if a, b := d6Tree(remote), d6Tree(direct); a != b {
			t.Errorf("after commit %d the remote is %q, the directly modified tree is %q", k+1, a, b)
		}
	}
}

// a directory that lives partly in the buffer and partly on the remote is copied completely
func TestD6CopyOfPartlyBufferedDirectory(t *testing.T) {
	d6Run(t, 1,
		func(fs filesystem.Filespace) error { return fs.MkdirAll("a", 0777) },
		func(fs filesystem.Filespace) error { return fs.Copy("a", "n") })
}

// a node with a pending remove is not copied
func TestD6CopySkipsRemovedNodes(t *testing.T) {
	d6Run(t, 1,
		func(fs filesystem.Filespace) error { return fs.Remove("a/b") },
		func(fs filesystem.Filespace) error { return fs.Copy("a", "n") })
}

// the implicitly created parent survives the removal of the node
func TestD6ParentOfRemovedNodeReachesRemote(t *testing.T) {
	d6Run(t, 1,
		func(fs filesystem.Filespace) error { return fs.WriteFile("n/m", []byte("x"), 0666) },
		func(fs filesystem.Filespace) error { return fs.Remove("n/m") })
}

// a directory emptied by an earlier pending remove can be removed
func TestD6RemoveOfEmptiedDirectory(t *testing.T) {
	d6Run(t, 1,
		func(fs filesystem.Filespace) error { return fs.RemoveAll("a/b") },
		func(fs filesystem.Filespace) error { return fs.Remove("a") })
}

// a second commit neither fails nor changes the remote
func TestD6SecondCommit(t *testing.T) {
	d6Run(t, 2,
		func(fs filesystem.Filespace) error { return fs.Remove("a/b") },
		func(fs filesystem.Filespace) error { return fs.Remove("a") },
		func(fs filesystem.Filespace) error { return fs.WriteFile("a/n", []byte("x"), 0666) })
}
