package fscache

import (
	"testing"

	"github.com/goatcms/goatcore/filesystem/filespace/memfs"
)

func TestD6RemoveEmptyDirAndParentResurrection(t *testing.T) {
	remote, _ := memfs.NewFilespace()
	remote.MkdirAll("empty", 0777)
	remote.WriteFile("d/old.txt", []byte("O"), 0777)
	c, _ := NewMemCache(remote)
	if err := c.Remove("empty"); err != nil {
		t.Fatal(err)
	}
	if err := c.WriteFile("d/new.txt", []byte("N"), 0777); err != nil {
		t.Fatal(err)
	}
	if err := c.RemoveAll("d"); err != nil {
		t.Fatal(err)
	}
	if err := c.Commit(); err != nil {
		t.Fatal(err)
	}
	if remote.IsExist("empty") {
		t.Errorf("D6c: Remove of an empty remote directory was not committed")
	}
	if remote.IsExist("d") {
		t.Errorf("D6d: directory d was removed after the write, but Commit re-created it on the remote")
	}
}
