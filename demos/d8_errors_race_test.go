package fsloop

import (
	"errors"
	"os"
	"sync"
	"testing"
	"time"

	"github.com/goatcms/goatcore/filesystem"
	"github.com/goatcms/goatcore/filesystem/filespace/memfs"
)

// C08 ("a callback or listing error always appears in the loop's error list", all
// interleavings): Loop.Errors() reads the lifecycle's error list while a producer that is still
// running after a kill reports a listing error. Run with -race: on the tree before the repair the
// race detector reports the unsynchronised read in Lifecycle.Errors against the append in
// Lifecycle.Error.
type lateFailFS struct {
	fsIface
	gate chan struct{}
	hit  chan struct{}
	once sync.Once
}

type fsIface = filesystem.Filespace

func (l *lateFailFS) ReadDir(p string) ([]os.FileInfo, error) {
	if p == "slow/" || p == "./slow/" || p == "slow" || p == "./slow" {
		l.once.Do(func() { close(l.hit) })
		<-l.gate
		return nil, errors.New("late listing error")
	}
	return l.fsIface.ReadDir(p)
}

func TestDemoErrorsRace(t *testing.T) {
	src, _ := memfs.NewFilespace()
	src.WriteFile("a.txt", []byte("x"), 0666)
	src.MkdirAll("slow", 0777)
	fs := &lateFailFS{fsIface: src, gate: make(chan struct{}), hit: make(chan struct{})}
	loop := NewLoop(&LoopData{
		Filespace: fs,
		OnFile: func(fs filesystem.Filespace, p string) error {
			return errors.New("file callback fails: the strict lifecycle is killed")
		},
		Consumers:  1,
		Producents: 4,
	}, nil)
	loop.Run("")
	<-fs.hit // a second producer is inside ReadDir("slow/")
	loop.Wait()
	done := make(chan struct{})
	go func() {
		defer close(done)
		for i := 0; i < 2000; i++ {
			_ = loop.Errors()
		}
	}()
	time.Sleep(time.Millisecond)
	close(fs.gate) // the late producer now reports its listing error
	<-done
	time.Sleep(50 * time.Millisecond)
	if len(loop.Errors()) < 2 {
		t.Logf("errors: %v", loop.Errors())
	}
}
