package memfs

import "testing"

func TestD456(t *testing.T) {
	fs, _ := NewFilespace()
	fs.WriteFile("a", []byte("1"), 0777)
	fs.WriteFile("b", []byte("2"), 0777)
	fs.WriteFile("c", []byte("3"), 0777)
	nodes, _ := fs.ReadDir("")
	fs.Remove("a")
	if nodes[0].Name() != "a" || nodes[1].Name() != "b" || nodes[2].Name() != "c" {
		t.Errorf("D4: earlier listing changed after Remove: %s %s %s", nodes[0].Name(), nodes[1].Name(), nodes[2].Name())
	}
	buf := []byte("hello")
	fs.WriteFile("f", buf, 0777)
	buf[0] = 'X'
	got, _ := fs.ReadFile("f")
	if string(got) != "hello" {
		t.Errorf("D5: file content follows the caller's buffer: %q", got)
	}
	got[1] = 'Y'
	got2, _ := fs.ReadFile("f")
	if got2[1] == 'Y' {
		t.Errorf("D5: ReadFile handed out the internal buffer: %q", got2)
	}
	if fs.IsFile("./b") && !fs.IsExist("./b") {
		t.Errorf("D6: IsFile(./b) but !IsExist(./b)")
	}
}
