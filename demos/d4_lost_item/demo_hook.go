package fsloop

// Demo instrumentation (never part of /repo): a yield point in the consumer between the
// queue probe and the close-step read, so that a test can hold the consumer there.

// DemoGap is called by the consumer at the yield point when it is set.
var DemoGap func()

func demoGap() {
	if f := DemoGap; f != nil {
		f()
	}
}
