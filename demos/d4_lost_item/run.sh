#!/bin/bash
# demos/d4_lost_item/run.sh <repo-dir> <hook-patch>: copies the repository to a scratch directory,
# adds the demo yield point and runs the forced schedule. Exit 0: complete copy or error; 1: item lost.
set -u
D="$(cd "$(dirname "$0")" && pwd)"
SRC="${1:-/repo}"; HOOK="${2:-$D/hook_after_fix.patch}"
export GOFLAGS=-mod=mod GOPROXY=off GOSUMDB=off GOTOOLCHAIN=local
SCR=/var/tmp/d4-$$; rm -rf $SCR; mkdir -p $SCR; rsync -a --exclude .git "$SRC"/ $SCR/
trap 'rm -rf $SCR' EXIT
cd $SCR && patch -p1 -s < "$HOOK" || exit 2
cp "$D/demo_hook.go" filesystem/fsloop/zz_demo_hook.go
cp "$D/zz_demo_lost_item_test.go" filesystem/fshelper/zz_demo_lost_item_test.go
go test -vet=off -count=1 -timeout 60s -run TestDemoLostItem -v ./filesystem/fshelper/ 2>&1 | tail -8
exit ${PIPESTATUS[0]}
