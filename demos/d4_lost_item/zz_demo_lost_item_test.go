package fshelper

import (
	"os"
	"sync"
	"testing"
	"time"

	"github.com/goatcms/goatcore/filesystem"
	"github.com/goatcms/goatcore/filesystem/filespace/memfs"
	"github.com/goatcms/goatcore/filesystem/fsloop"
)

// gatedFS delays the first directory listing until the gate is opened.
type fsIface = filesystem.Filespace

type gatedFS struct {
	fsIface
	gate chan struct{}
	once sync.Once
	hit  chan struct{}
}

func (g *gatedFS) ReadDir(p string) ([]os.FileInfo, error) {
	g.once.Do(func() { close(g.hit); <-g.gate })
	return g.fsIface.ReadDir(p)
}

// TestDemoLostItem: a consumer that found both queues empty is held before it reads the close
// step; meanwhile the producer lists the directory, enqueues the only file and finishes, and the
// completion goroutine announces the close step. The consumer then continues. A complete copy or
// an error is required (C04); the unfixed consumer returns with the file still queued and Copy
// returns nil.
func TestDemoLostItem(t *testing.T) {
	src, _ := memfs.NewFilespace()
	dest, _ := memfs.NewFilespace()
	if err := src.WriteFile("a.txt", []byte("payload"), 0666); err != nil {
		t.Fatal(err)
	}
	g := &gatedFS{fsIface: src, gate: make(chan struct{}), hit: make(chan struct{})}
	inGap := make(chan struct{})
	resume := make(chan struct{})
	var once sync.Once
	fsloop.DemoGap = func() {
		once.Do(func() { close(inGap); <-resume })
	}
	defer func() { fsloop.DemoGap = nil }()
	done := make(chan error, 1)
	go func() { done <- Copy(g, dest, nil) }()
	<-g.hit       // the producer is about to list the root
	<-inGap       // the consumer saw empty queues and is held before the close-step test
	close(g.gate) // the producer lists, enqueues a.txt and finishes; close is announced
	time.Sleep(300 * time.Millisecond)
	close(resume)
	var err error
	select {
	case err = <-done:
	case <-time.After(10 * time.Second):
		t.Fatal("Copy did not return")
	}
	if err == nil && !dest.IsFile("a.txt") {
		t.Fatalf("Copy returned nil but the destination is not a complete copy: a.txt is missing")
	}
	t.Logf("err=%v a.txt copied=%v", err, dest.IsFile("a.txt"))
}
