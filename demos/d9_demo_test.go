package memfs

import (
	"sync"
	"testing"
)

// run with -race: Size/ModTime and the time write of WriteFile race with writers
func TestD9Races(t *testing.T) {
	fsi, _ := NewFilespace()
	fs := fsi.(*Filespace)
	fs.WriteFile("d/f", []byte("1"), 0777)
	var wg sync.WaitGroup
	for i := 0; i < 4; i++ {
		wg.Add(2)
		go func() {
			defer wg.Done()
			for j := 0; j < 200; j++ {
				fs.WriteFile("d/f", []byte("22"), 0777)
				fs.WriteFile("d/g", []byte("3"), 0777)
				fs.Remove("d/g")
			}
		}()
		go func() {
			defer wg.Done()
			for j := 0; j < 200; j++ {
				if n, err := fs.Lstat("d/f"); err == nil {
					_ = n.Size()
					_ = n.ModTime()
				}
				if n, err := fs.Lstat("d"); err == nil {
					_ = n.Size()
					_ = n.ModTime()
				}
				fs.Remove("d")
			}
		}()
	}
	wg.Wait()
}
