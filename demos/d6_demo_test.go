package fscache

import (
	"testing"

	"github.com/goatcms/goatcore/filesystem/filespace/memfs"
)

func TestD6CommitDirectoryCopyAndUncleanPath(t *testing.T) {
	remote, _ := memfs.NewFilespace()
	remote.WriteFile("src/a.txt", []byte("A"), 0777)
	remote.WriteFile("src/sub/b.txt", []byte("B"), 0777)
	c, _ := NewMemCache(remote)
	if err := c.CopyDirectory("src", "dst"); err != nil {
		t.Fatal(err)
	}
	if err := c.WriteFile("./x/../y.txt", []byte("Y"), 0777); err != nil {
		t.Fatal(err)
	}
	if err := c.Commit(); err != nil {
		t.Fatal(err)
	}
	if got, _ := remote.ReadFile("dst/sub/b.txt"); string(got) != "B" {
		t.Errorf("D6a: directory copy was not committed: dst/sub/b.txt = %q", got)
	}
	if got, _ := remote.ReadFile("y.txt"); string(got) != "Y" {
		t.Errorf("D6b: file written under an uncleaned path was not committed: y.txt = %q", got)
	}
}
