package diskfs

import (
	"os"
	"testing"
)

func TestD7DiskWriterTruncates(t *testing.T) {
	dir, _ := os.MkdirTemp("", "d7")
	defer os.RemoveAll(dir)
	fs, err := NewFilespace(dir)
	if err != nil {
		t.Fatal(err)
	}
	fs.WriteFile("f", []byte("old-long-content"), 0666)
	w, err := fs.Writer("f")
	if err != nil {
		t.Fatal(err)
	}
	w.Write([]byte("new"))
	w.Close()
	got, _ := fs.ReadFile("f")
	if string(got) != "new" {
		t.Errorf("D7: disk writer on an existing file keeps old bytes: %q", got)
	}
}
