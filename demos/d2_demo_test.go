package diskfs

import (
	"os"
	"testing"
)

func TestD2CopyDirectory(t *testing.T) {
	dir, _ := os.MkdirTemp("", "d2")
	defer os.RemoveAll(dir)
	fs, _ := NewFilespace(dir)
	fs.WriteFile("src/a.txt", []byte("A"), 0666)
	fs.WriteFile("src/sub/b.txt", []byte("B"), 0666)
	if err := fs.CopyDirectory("src", "dst"); err != nil {
		t.Errorf("CopyDirectory failed: %v", err)
	}
	if got, _ := fs.ReadFile("dst/sub/b.txt"); string(got) != "B" {
		t.Errorf("dst/sub/b.txt = %q", got)
	}
	if fs.IsExist("src/src") {
		t.Errorf("CopyDirectory littered the source: src/src exists")
	}
	func() {
		defer func() {
			if r := recover(); r != nil {
				t.Errorf("CopyDirectory of a missing source panicked: %v", r)
			}
		}()
		if err := fs.CopyDirectory("missing", "dst2"); err == nil {
			t.Errorf("CopyDirectory of a missing source returned nil")
		}
	}()
}
