package pipc

import (
	"fmt"
	"testing"

	"github.com/goatcms/goatcore/app"
	"github.com/goatcms/goatcore/app/goatapp"
	"github.com/goatcms/goatcore/app/terminal"
)

// A try block whose surrounding scope fails while the body runs (here: the body's command
// reports an error on the application scope, as any sibling task could): the finally handler can
// no longer be submitted, Try's goroutine reports that with parentScope.AppendError - on a scope
// whose Close is already waiting for this very goroutine - and the whole process dies with
// "scope ... is closed" instead of the application reporting an error.
func TestDemoTryHandlerSubmissionFailureCrashes(t *testing.T) {
	mapp, bootstraper, err := newApp(goatapp.Params{
		Arguments: []string{`appname`, `pip:try`, `--name=name`, `--body="bodyCommand"`, `--finally=finallyCommand`, `--silent=false`},
	})
	if err != nil {
		t.Fatal(err)
	}
	term := mapp.Terminal()
	term.SetCommand(terminal.NewCommand(terminal.CommandParams{
		Name: "bodyCommand",
		Callback: func(a app.App, ctx app.IOContext) error {
			a.Scopes().App().AppendError(fmt.Errorf("a sibling failed"))
			return nil
		},
	}))
	term.SetCommand(terminal.NewCommand(terminal.CommandParams{
		Name:     "finallyCommand",
		Callback: func(a app.App, ctx app.IOContext) error { return nil },
	}))
	runErr := bootstraper.Run()
	waitErr := mapp.Scopes().App().Wait()
	if runErr == nil && waitErr == nil {
		t.Errorf("expected the application to report the failure")
	}
}
