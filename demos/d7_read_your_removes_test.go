package fscache

import (
	"testing"

	"github.com/goatcms/goatcore/filesystem/filespace/memfs"
)

func names(t *testing.T, c *Cache, p string) map[string]bool {
	out := map[string]bool{}
	infos, err := c.ReadDir(p)
	if err != nil {
		t.Logf("ReadDir(%q): %v", p, err)
		return nil
	}
	for _, i := range infos {
		if out[i.Name()] {
			t.Errorf("%s listed twice in %q", i.Name(), p)
		}
		out[i.Name()] = true
	}
	return out
}

func TestZZReadYourRemoves(t *testing.T) {
	remote, _ := memfs.NewFilespace()
	remote.WriteFile("a.txt", []byte("A"), 0777)
	remote.WriteFile("keep.txt", []byte("K"), 0777)
	remote.WriteFile("d/b.txt", []byte("B"), 0777)
	remote.WriteFile("d/sub/c.txt", []byte("C"), 0777)
	remote.WriteFile("dd/x.txt", []byte("X"), 0777)
	c, _ := NewMemCache(remote)
	c.Remove("a.txt")
	c.RemoveAll("d")
	if c.IsExist("a.txt") || c.IsFile("a.txt") {
		t.Errorf("a.txt visible after Remove")
	}
	if c.IsDir("d") || c.IsExist("d/sub/c.txt") || c.IsFile("d/b.txt") || c.IsDir("d/sub") {
		t.Errorf("d visible after RemoveAll")
	}
	if !c.IsFile("dd/x.txt") || !c.IsDir("dd") || !c.IsFile("keep.txt") {
		t.Errorf("untouched nodes hidden (prefix test must respect the separator)")
	}
	if _, err := c.ReadFile("d/b.txt"); err == nil {
		t.Errorf("ReadFile of removed node succeeded")
	}
	if _, err := c.Lstat("a.txt"); err == nil {
		t.Errorf("Lstat of removed node succeeded")
	}
	if n := names(t, c, "."); n["a.txt"] || n["d"] || !n["keep.txt"] || !n["dd"] {
		t.Errorf("root listing %v", n)
	}
	if n := names(t, c, "d"); n != nil {
		t.Errorf("removed directory still lists %v", n)
	}
	// re-create below a removed directory: only the new node is visible
	c.WriteFile("d/new.txt", []byte("N"), 0777)
	if n := names(t, c, "d"); !n["new.txt"] || n["b.txt"] || n["sub"] || len(n) != 1 {
		t.Errorf("listing of re-created d: %v", n)
	}
	if !c.IsDir("d") || !c.IsFile("d/new.txt") || c.IsFile("d/b.txt") {
		t.Errorf("re-created d wrong")
	}
	// re-create a removed file
	c.WriteFile("a.txt", []byte("A2"), 0777)
	if data, err := c.ReadFile("a.txt"); err != nil || string(data) != "A2" {
		t.Errorf("re-created a.txt: %q %v", data, err)
	}
	if err := c.Commit(); err != nil {
		t.Fatal(err)
	}
	if remote.IsExist("d/b.txt") || remote.IsExist("d/sub") || !remote.IsFile("d/new.txt") || !remote.IsFile("keep.txt") || !remote.IsFile("dd/x.txt") {
		t.Errorf("remote after commit wrong")
	}
	if data, _ := remote.ReadFile("a.txt"); string(data) != "A2" {
		t.Errorf("remote a.txt = %q", data)
	}
	// child view
	sub, _ := c.Filespace("dd")
	sub.Remove("x.txt")
	if sub.IsExist("x.txt") || c.IsExist("dd/x.txt") {
		t.Errorf("removed through a child view but still visible")
	}
}
