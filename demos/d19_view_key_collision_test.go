package ghprovider

import (
	"bytes"
	"html/template"
	"testing"

	"github.com/goatcms/goatcore/filesystem/filespace/memfs"
	"github.com/goatcms/goatcore/goathtml"
)

// C19 (cache transparency for any names): TestDemoViewKeyCollision asks one cached provider for two different
// (layout, view) pairs whose names contain the key separator: ("a", "b:c") and
// ("a:b", "c"). Each pair must render its own layout and its own view,
// and the cached provider must render exactly what an uncached provider renders.
func TestDemoViewKeyCollision(t *testing.T) {
	fs, err := memfs.NewFilespace()
	if err != nil {
		t.Fatal(err)
	}
	files := [][2]string{
		// layout "admin": the page skeleton
		{"layouts/a/main.gohtml", `<admin>{{template "menu" .}}|{{template "content" .}}</admin>{{define "menu"}}admin-menu{{end}}`},
		// layout "admin/user": a separate layout with its own skeleton and menu
		{"layouts/a:b/main.gohtml", `<user>{{template "menu" .}}|{{template "content" .}}</user>{{define "menu"}}user-menu{{end}}`},
		// view "user/list"
		{"views/b:c/main.gohtml", `{{define "content"}}list of users{{end}}`},
		// view "list"
		{"views/c/main.gohtml", `{{define "content"}}generic list{{end}}`},
	}
	for _, file := range files {
		if err = fs.WriteFile(file[0], []byte(file[1]), 0777); err != nil {
			t.Fatal(err)
		}
	}
	render := func(provider *Provider, layoutName, viewName string) string {
		view, err := provider.View(layoutName, viewName)
		if err != nil {
			t.Fatalf("View(%q, %q): %v", layoutName, viewName, err)
		}
		buf := new(bytes.Buffer)
		if err = view.Execute(buf, nil); err != nil {
			t.Fatalf("Execute(%q, %q): %v", layoutName, viewName, err)
		}
		return buf.String()
	}
	requests := [][2]string{
		{"a", "b:c"},
		{"a:b", "c"},
	}
	cached := NewProvider(fs, goathtml.HelpersPath, goathtml.LayoutPath, goathtml.ViewPath, goathtml.FileExtension, template.FuncMap{}, true)
	uncached := NewProvider(fs, goathtml.HelpersPath, goathtml.LayoutPath, goathtml.ViewPath, goathtml.FileExtension, template.FuncMap{}, false)
	for _, req := range requests {
		want := render(uncached, req[0], req[1])
		got := render(cached, req[0], req[1])
		if got != want {
			t.Errorf("View(%q, %q): cached provider renders %q, uncached provider renders %q", req[0], req[1], got, want)
		}
	}
	// the second pair must show its own view content
	if got, want := render(cached, "a:b", "c"), "<user>user-menu|generic list</user>"; got != want {
		t.Errorf("View(a:b, c) renders %q, expected %q", got, want)
	}
}
