package memfs

import "testing"

func TestD3Phantom(t *testing.T) {
	fs, _ := NewFilespace()
	fs.MkdirAll(".", 0777)
	fs.MkdirAll("..", 0777)
	fs.WriteFile("../x", []byte("a"), 0777)
	fs.WriteFile(".", []byte("b"), 0777)
	nodes, _ := fs.ReadDir("")
	for _, n := range nodes {
		t.Errorf("phantom node %q isDir=%v", n.Name(), n.IsDir())
	}
}
