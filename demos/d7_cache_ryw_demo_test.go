package fscache

import (
	"testing"

	"github.com/goatcms/goatcore/filesystem/filespace/memfs"
)

// C07: pending removes must be visible to reads. Failed on the tree before fix 54c6d63 (the
// former known finding); passes on the repaired tree.
func TestC07RemovedStillVisible(t *testing.T) {
	remote, _ := memfs.NewFilespace()
	remote.WriteFile("a.txt", []byte("A"), 0777)
	remote.WriteFile("d/b.txt", []byte("B"), 0777)
	c, _ := NewMemCache(remote)
	c.Remove("a.txt")
	c.RemoveAll("d")
	if c.IsExist("a.txt") || c.IsFile("a.txt") {
		t.Errorf("a.txt was removed through the cache but IsExist/IsFile still report it")
	}
	if c.IsDir("d") {
		t.Errorf("d was removed through the cache but IsDir still reports it")
	}
	if _, err := c.ReadFile("d/b.txt"); err == nil {
		t.Errorf("d/b.txt was removed through the cache but ReadFile still returns it")
	}
}
