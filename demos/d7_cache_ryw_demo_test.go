package fscache

import (
	"testing"

	"github.com/goatcms/goatcore/filesystem/filespace/memfs"
)

// KNOWN FINDING (C07, recorded, not repaired): pending removes are invisible to reads.
func TestC07RemovedStillVisible(t *testing.T) {
	remote, _ := memfs.NewFilespace()
	remote.WriteFile("a.txt", []byte("A"), 0777)
	remote.WriteFile("d/b.txt", []byte("B"), 0777)
	c, _ := NewMemCache(remote)
	c.Remove("a.txt")
	c.RemoveAll("d")
	if c.IsExist("a.txt") || c.IsFile("a.txt") {
		t.Errorf("a.txt was removed through the cache but IsExist/IsFile still report it")
	}
	if c.IsDir("d") {
		t.Errorf("d was removed through the cache but IsDir still reports it")
	}
	if _, err := c.ReadFile("d/b.txt"); err == nil {
		t.Errorf("d/b.txt was removed through the cache but ReadFile still returns it")
	}
}
