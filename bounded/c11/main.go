// Bounded stand-in for C11 (labelled BOUNDED, never counted as proved): the close protocol of the
// real app/scope.Scope on small scope trees. Every combination of: no child / a child sharing the
// parent's context / a child with an isolated context; 0 or 2 tasks that finish during the
// parent's Close; an error appended by a task; one action before the closes (error on parent, error
// on child, kill or stop of either); one failing listener on any of the eight close events of the
// parent; a failing listener on the child's commit or after-close event; the child closed before
// the parent's Close or from another goroutine while the parent's Close waits.
//
// Oracle (the statement of C11): the parent's events are before-close, then - only after every task
// logged its end and the child fired its after-close - exactly the commit triple (no error held at
// that moment) or exactly the rollback triple (an error held), then after-close, each once and in
// that order; Close reports an error iff the scope holds one at the end; a second Close panics
// and fires nothing; an error or kill in a child sharing the context fails the parent, in an
// isolated child it does not; an isolated child is done once the parent is killed or stopped.
//
//	c11 -out <json>
package main

import (
	"encoding/json"
	"errors"
	"flag"
	"fmt"
	"os"
	"strings"
	"sync"
	"time"

	"github.com/goatcms/goatcore/app"
	"github.com/goatcms/goatcore/app/scope"
	"github.com/goatcms/goatcore/app/scope/contextscope"
)

type failure struct {
	Check string `json:"check"`
	Input string `json:"input"`
	What  string `json:"what"`
}

type result struct {
	Bound     string    `json:"bound"`
	Cases     int       `json:"cases"`
	Nontriv   int       `json:"distinct_nontrivial"`
	Samples   []string  `json:"samples"`
	Failures  []failure `json:"failures"`
	Exhausted bool      `json:"exhaustive"`
	WallS     float64   `json:"wall_s"`
}

var (
	res   result
	resMu sync.Mutex
)

func add(check, in, what string) {
	resMu.Lock()
	defer resMu.Unlock()
	if len(res.Failures) < 6 {
		res.Failures = append(res.Failures, failure{check, in, what})
	}
}

var closeEvents = []struct {
	id   int
	name string
}{
	{app.BeforeCloseEvent, "before-close"},
	{app.BeforeCommitEvent, "before-commit"}, {app.CommitEvent, "commit"}, {app.AfterCommitEvent, "after-commit"},
	{app.BeforeRollbackEvent, "before-rollback"}, {app.RollbackEvent, "rollback"}, {app.AfterRollbackEvent, "after-rollback"},
	{app.AfterCloseEvent, "after-close"},
}

type scenario struct {
	Child       int  // 0 none, 1 shared context, 2 isolated context
	Tasks       int  // tasks of the parent finishing during its Close
	TaskErr     bool // a task appended an error to the parent before the closes
	Pre         int  // 0 none, 1 parent.AppendError, 2 child.AppendError, 3 child.Kill, 4 parent.Kill, 5 parent.Stop, 6 child.Stop
	ListenerErr int  // index into closeEvents of the parent's failing listener, -1 none
	ChildErr    int  // 0 none, 1 the child's commit listener fails, 2 the child's after-close listener fails
	Late        bool // the child is closed from another goroutine while the parent's Close waits
}

func (s scenario) String() string {
	b, _ := json.Marshal(s)
	return string(b)
}

var preNames = []string{"none", "parent.AppendError", "child.AppendError", "child.Kill", "parent.Kill", "parent.Stop", "child.Stop"}

type log struct {
	mu      sync.Mutex
	entries []string
}

func (l *log) add(s string) {
	l.mu.Lock()
	l.entries = append(l.entries, s)
	l.mu.Unlock()
}
func (l *log) snapshot() []string {
	l.mu.Lock()
	defer l.mu.Unlock()
	return append([]string{}, l.entries...)
}

var errListener = errors.New("listener failed")

func run(s scenario) {
	id := s.String()
	lg := &log{}
	root := scope.New(scope.Params{Name: "root"})
	var child app.Scope
	started := make(chan struct{})
	var startedOnce sync.Once
	for i, ev := range closeEvents {
		i, ev := i, ev
		root.On(ev.id, func(data interface{}) error {
			if data != interface{}(root) {
				if s.Late && ev.id == app.AfterCloseEvent && child != nil && data == interface{}(child) {
					// a slow after-close listener of the child: the parent has to wait for it too
					time.Sleep(3 * time.Millisecond)
				}
				return nil
			}
			lg.add("parent:" + ev.name)
			if ev.id == app.BeforeCloseEvent {
				startedOnce.Do(func() { close(started) })
			}
			if s.ListenerErr == i {
				return errListener
			}
			return nil
		})
	}
	var wg sync.WaitGroup
	if err := root.AddTasks(s.Tasks); err != nil {
		add("setup", id, "AddTasks on a fresh scope: "+err.Error())
		return
	}
	switch s.Child {
	case 1:
		child = scope.NewChild(root, scope.ChildParams{Name: "child"})
	case 2:
		child = scope.NewChild(root, scope.ChildParams{Name: "child", ContextScope: contextscope.NewIsolated(root.BaseContextScope())})
	}
	if child != nil {
		for _, ev := range closeEvents {
			ev := ev
			child.On(ev.id, func(data interface{}) error {
				if data != interface{}(child) {
					return nil
				}
				lg.add("child:" + ev.name)
				if (s.ChildErr == 1 && ev.id == app.CommitEvent) || (s.ChildErr == 2 && ev.id == app.AfterCloseEvent) {
					return errListener
				}
				return nil
			})
		}
	}
	// the action before the closes
	switch s.Pre {
	case 1:
		root.AppendError(errors.New("parent error"))
	case 2:
		child.AppendError(errors.New("child error"))
	case 3:
		child.Kill()
	case 4:
		root.Kill()
	case 5:
		root.Stop()
	case 6:
		child.Stop()
	}
	// expectations on the contexts before anything is closed
	sharedErr := s.Pre == 1 || s.Pre == 4 || s.TaskErr || (s.Child == 1 && (s.Pre == 2 || s.Pre == 3))
	if s.Child == 2 && (s.Pre == 4 || s.Pre == 5) {
		select {
		case <-child.Done():
		case <-time.After(3 * time.Second):
			add("isolated-child-stops-with-parent", id, "the isolated child is not done 3 s after "+preNames[s.Pre])
		}
	}
	if s.Child == 2 && (s.Pre == 2 || s.Pre == 3) {
		if len(root.Errors()) != 0 {
			add("isolated-child-fails-alone", id, fmt.Sprintf("the parent holds %v after %s", root.Errors(), preNames[s.Pre]))
		}
		if len(child.Errors()) == 0 {
			add("child-failure-recorded", id, "the child holds no error after "+preNames[s.Pre])
		}
	}
	if s.Child == 1 && (s.Pre == 2 || s.Pre == 3) && len(root.Errors()) == 0 {
		add("shared-child-fails-parent", id, "the parent holds no error after "+preNames[s.Pre])
	}
	if s.TaskErr {
		root.AppendError(errors.New("task error"))
	}
	for i := 0; i < s.Tasks; i++ {
		i := i
		wg.Add(1)
		go func() {
			defer wg.Done()
			<-started
			time.Sleep(time.Millisecond)
			lg.add(fmt.Sprintf("task%d:done", i))
			root.DoneTask()
		}()
	}
	var childCloseErr error
	childHeld := false
	childClosed := make(chan struct{})
	closeChild := func() {
		defer close(childClosed)
		defer func() {
			if r := recover(); r != nil {
				add("child-close-no-panic", id, fmt.Sprint(r))
			}
		}()
		childCloseErr = child.Close()
		childHeld = len(child.Errors()) != 0
	}
	if child != nil {
		if s.Late {
			go func() {
				<-started
				time.Sleep(time.Millisecond)
				closeChild()
			}()
		} else {
			closeChild()
		}
	}
	var closeErr error
	done := make(chan struct{})
	go func() {
		defer close(done)
		defer func() {
			if r := recover(); r != nil {
				add("close-no-panic", id, fmt.Sprint(r))
			}
		}()
		closeErr = root.Close()
	}()
	select {
	case <-done:
	case <-time.After(10 * time.Second):
		add("close-returns", id, "parent Close did not return within 10 s; log "+strings.Join(lg.snapshot(), " "))
		return
	}
	wg.Wait()
	if child != nil {
		<-childClosed
	}
	entries := lg.snapshot()
	// expected error state of the parent at the moment its wait ended
	childFails := s.Child != 0 && s.ChildErr != 0
	// the child's own state when it closes decides whether its commit listener runs
	// (only a child sharing the context matters for the parent; an isolated child fails alone)
	childHasErr := s.Child == 1 && (sharedErr || (s.ListenerErr == 0 && s.Late))
	childListenerFired := childFails && (s.ChildErr == 2 || !childHasErr)
	wantRollback := sharedErr || s.ListenerErr == 0 || (s.Child == 1 && childListenerFired)
	triple := []string{"parent:before-commit", "parent:commit", "parent:after-commit"}
	if wantRollback {
		triple = []string{"parent:before-rollback", "parent:rollback", "parent:after-rollback"}
	}
	want := append(append([]string{"parent:before-close"}, triple...), "parent:after-close")
	var got []string
	first := -1
	for i, e := range entries {
		if strings.HasPrefix(e, "parent:") {
			got = append(got, e)
			if len(got) == 2 {
				first = i
			}
		}
	}
	undecided := s.Child == 1 && s.ChildErr == 1 && s.Late && s.ListenerErr == 0
	if !undecided && strings.Join(got, " ") != strings.Join(want, " ") {
		add("events-once-in-order-commit-xor-rollback", id, "parent events: "+strings.Join(got, " ")+" | expected: "+strings.Join(want, " "))
	}
	// everything the scope waits for is logged before the triple starts
	for i, e := range entries {
		if (strings.HasSuffix(e, ":done") || e == "child:after-close") && first >= 0 && i > first {
			add("close-waits-for-tasks-and-children", id, "log: "+strings.Join(entries, " "))
			break
		}
	}
	if s.Child != 0 {
		n := 0
		for _, e := range entries {
			if e == "child:after-close" {
				n++
			}
		}
		if n != 1 {
			add("child-events", id, "log: "+strings.Join(entries, " "))
		}
	}
	holds := len(root.Errors()) != 0
	if (closeErr != nil) != holds {
		add("close-reports-iff-error-held", id, fmt.Sprintf("Close returned %v, the scope holds %v", closeErr, root.Errors()))
	}
	wantHolds := wantRollback || s.ListenerErr >= 0 && contains(want, "parent:"+closeEvents[max0(s.ListenerErr)].name)
	if !undecided && holds != wantHolds {
		add("error-held-at-end", id, fmt.Sprintf("the scope holds %v; expected an error: %v", root.Errors(), wantHolds))
	}
	if child != nil && !s.Late && (s.Child == 1 || (!sharedErr && s.Pre != 4 && s.Pre != 5)) {
		// (a late close races with the parent's own events; an isolated child of a parent that
		// is already done is killed or stopped asynchronously: neither is decided here)
		if (childCloseErr != nil) != childHeld {
			add("close-reports-iff-error-held", id, fmt.Sprintf("child Close returned %v, the child held an error right afterwards: %v", childCloseErr, childHeld))
		}
	}
	// closing twice is refused loudly and fires nothing
	before := len(lg.snapshot())
	panicked := false
	func() {
		defer func() {
			if recover() != nil {
				panicked = true
			}
		}()
		root.Close()
	}()
	if !panicked {
		add("second-close-refused", id, "the second Close returned normally")
	}
	if len(lg.snapshot()) != before {
		add("second-close-fires-nothing", id, "log after the second Close: "+strings.Join(lg.snapshot()[before:], " "))
	}
}

func contains(l []string, s string) bool {
	for _, e := range l {
		if e == s {
			return true
		}
	}
	return false
}

func max0(i int) int {
	if i < 0 {
		return 0
	}
	return i
}

// full: enough failing inputs are recorded; the rest of the space is skipped (and the run is no
// longer exhaustive), so a tree on which every scenario hangs does not take hours
func full() bool {
	resMu.Lock()
	defer resMu.Unlock()
	return len(res.Failures) >= 6
}

// an isolated context created for a parent that is already done is stopped (or killed) too
func lateIsolated(killed bool) {
	id := fmt.Sprintf("isolated context created after its parent was %s", map[bool]string{false: "stopped without an error", true: "killed"}[killed])
	defer func() {
		if r := recover(); r != nil {
			add("no-panic", id, fmt.Sprint(r))
		}
	}()
	parent := contextscope.New()
	if killed {
		parent.Kill()
	} else {
		parent.Stop()
	}
	iso := contextscope.NewIsolated(parent)
	select {
	case <-iso.Done():
	case <-time.After(3 * time.Second):
		add("isolated-child-stops-with-parent", id, "the isolated context is not done 3 s after its creation")
		return
	}
	if killed && len(iso.Errors()) == 0 {
		add("isolated-child-stops-with-parent", id, "the parent was killed, the isolated context holds no error")
	}
	if !killed && len(iso.Errors()) != 0 {
		add("isolated-child-stops-with-parent", id, fmt.Sprintf("the parent stopped without an error, the isolated context holds %v", iso.Errors()))
	}
}

func main() {
	flag.String("input", "", "replay: the recorded input (the bounded space is re-run)")
	out := flag.String("out", "", "result file")
	flag.Parse()
	start := time.Now()
	res.Exhausted = true
	res.Bound = "scope trees of a parent and at most one child (shared or isolated context); 0 or 2 tasks ending during the parent's Close; optional task error; 7 actions before the closes; a failing parent listener on each of the 8 close events or none; a failing child listener on commit / after-close or none; child closed before or during the parent's Close"
	var all []scenario
	for child := 0; child <= 2; child++ {
		for _, tasks := range []int{0, 2} {
			for _, taskErr := range []bool{false, true} {
				for pre := 0; pre <= 6; pre++ {
					if child == 0 && (pre == 2 || pre == 3 || pre == 6) {
						continue
					}
					for le := -1; le < len(closeEvents); le++ {
						for ce := 0; ce <= 2; ce++ {
							if child == 0 && ce != 0 {
								continue
							}
							for _, late := range []bool{false, true} {
								if child == 0 && late {
									continue
								}
								all = append(all, scenario{child, tasks, taskErr, pre, le, ce, late})
							}
						}
					}
				}
			}
		}
	}
	res.Cases = len(all)
	res.Nontriv = len(all)
	sem := make(chan struct{}, 16)
	var wg sync.WaitGroup
	for i, s := range all {
		if full() {
			res.Exhausted = false
			res.Cases = i
			break
		}
		if i%997 == 0 && len(res.Samples) < 8 {
			res.Samples = append(res.Samples, s.String())
		}
		wg.Add(1)
		sem <- struct{}{}
		go func(s scenario) {
			defer wg.Done()
			defer func() { <-sem }()
			defer func() {
				if r := recover(); r != nil {
					add("no-panic", s.String(), fmt.Sprint(r))
				}
			}()
			run(s)
		}(s)
	}
	wg.Wait()
	for _, k := range []bool{false, true} {
		res.Cases++
		lateIsolated(k)
	}
	res.WallS = time.Since(start).Seconds()
	b, _ := json.MarshalIndent(res, "", " ")
	if *out != "" {
		os.WriteFile(*out, b, 0644)
	} else {
		fmt.Println(string(b))
	}
	if len(res.Failures) > 0 {
		os.Exit(1)
	}
}
