// Bounded stand-in for C10 over all registration orders (labelled BOUNDED, never counted as
// proved): for two names, every choice of at most one explicit definition (instance or factory)
// and at most one default definition (instance or factory) per name, every dependency shape
// between the two factories (none, a needs b, b needs a, both: a cycle), and EVERY ORDER of the
// registration calls: all registrations succeed; Get yields the explicit definition if there is
// one, else the default one, else an error, whatever the order; a factory runs only when needed
// and at most once after it has produced an instance; every later Get and an injection into a
// tagged field yield that same instance; a cycle is an error for both names, not a recursion; a
// failed or missing resolution does not change any other or later request; after the first Get
// every further definition is refused. It drives the real provider of /repo.
//
//	c10 -out <json>
package main

import (
	"encoding/json"
	"flag"
	"fmt"
	"os"
	"strings"
	"time"

	"github.com/goatcms/goatcore/app"
	"github.com/goatcms/goatcore/app/dependency"
)

type failure struct {
	Check string `json:"check"`
	Input string `json:"input"`
	What  string `json:"what"`
}

type result struct {
	Bound     string    `json:"bound"`
	Cases     int       `json:"cases"`
	Nontriv   int       `json:"distinct_nontrivial"`
	Samples   []string  `json:"samples"`
	Failures  []failure `json:"failures"`
	Exhausted bool      `json:"exhaustive"`
	WallS     float64   `json:"wall_s"`
}

var res result

func add(check, in, what string) {
	if len(res.Failures) < 5 {
		res.Failures = append(res.Failures, failure{check, in, what})
	}
}

type inst struct{ label string }

type target struct {
	A *inst `inject:"a"`
	B *inst `inject:"?b"`
}

type def struct {
	name string // a | b
	kind string // Set | SetDefault | AddFactory | AddDefaultFactory
}

func perms(xs []def) [][]def {
	if len(xs) <= 1 {
		return [][]def{append([]def(nil), xs...)}
	}
	var out [][]def
	for i := range xs {
		rest := append(append([]def(nil), xs[:i]...), xs[i+1:]...)
		for _, p := range perms(rest) {
			out = append(out, append([]def{xs[i]}, p...))
		}
	}
	return out
}

func main() {
	input := flag.String("input", "", "replay: the recorded input (the bounded space is re-run)")
	out := flag.String("out", "", "result file")
	flag.Parse()
	_ = input
	start := time.Now()
	res.Exhausted = true
	res.Bound = "names a, b; per name at most one explicit (Set | AddFactory) and at most one default (SetDefault | AddDefaultFactory) definition; factory dependencies none / a->b / b->a / cycle; every permutation of the registration calls; requests Get(a), Get(b), Get(missing) in both orders, repeated, and InjectTo"
	explicit := []string{"", "Set", "AddFactory"}
	deflt := []string{"", "SetDefault", "AddDefaultFactory"}
	for _, ea := range explicit {
		for _, da := range deflt {
			for _, eb := range explicit {
				for _, db := range deflt {
					var defs []def
					for _, d := range []def{{"a", ea}, {"a", da}, {"b", eb}, {"b", db}} {
						if d.kind != "" {
							defs = append(defs, d)
						}
					}
					for _, shape := range []string{"none", "a->b", "b->a", "cycle"} {
						for _, firstReq := range []string{"a", "b", "missing"} {
							var reference string
							for pi, p := range perms(defs) {
								res.Cases++
								got := run(p, shape, firstReq)
								if pi == 0 {
									reference = got
									if strings.Contains(got, "FACTORY") {
										res.Nontriv++
									}
								} else if got != reference {
									add("outcome-independent-of-registration-order", fmt.Sprintf("%v deps=%s first=%s", p, shape, firstReq), fmt.Sprintf("outcome %q, with the first order %v it was %q", got, perms(defs)[0], reference))
								}
							}
						}
					}
				}
			}
		}
	}
	// a failed resolution never changes a later request: a factory (explicit or default, alone or
	// beside a definition of the other name) that fails on its first run and succeeds on its
	// second; failure by its own error and failure through an optional injection that hits a cycle
	for _, kind := range []string{"AddFactory", "AddDefaultFactory"} {
		for _, other := range []string{"", "Set", "SetDefault", "AddFactory", "AddDefaultFactory"} {
			res.Cases++
			res.Nontriv++
			flaky(kind, other)
		}
	}
	res.Samples = append(res.Samples, run([]def{{"a", "AddFactory"}, {"a", "SetDefault"}, {"b", "AddDefaultFactory"}}, "a->b", "a"))
	res.WallS = time.Since(start).Seconds()
	b, _ := json.MarshalIndent(res, "", " ")
	if *out != "" {
		os.WriteFile(*out, b, 0644)
	} else {
		fmt.Println(string(b))
	}
	if len(res.Failures) > 0 {
		os.Exit(1)
	}
}

func flaky(kind, other string) {
	id := fmt.Sprintf("a: %s with a factory that fails on its first run only; b: %s", kind, other)
	defer func() {
		if r := recover(); r != nil {
			add("no-panic", id, fmt.Sprint(r))
		}
	}()
	dp := dependency.NewProvider("dependency")
	runs := 0
	type inst struct{ n int }
	f := func(app.DependencyProvider) (interface{}, error) {
		runs++
		if runs == 1 {
			return nil, fmt.Errorf("not ready yet")
		}
		return &inst{runs}, nil
	}
	var err error
	if kind == "AddFactory" {
		err = dp.AddFactory("a", f)
	} else {
		err = dp.AddDefaultFactory("a", f)
	}
	if err != nil {
		add("registration-succeeds", id, err.Error())
		return
	}
	bInst := &inst{-1}
	bf := func(app.DependencyProvider) (interface{}, error) { return bInst, nil }
	switch other {
	case "Set":
		err = dp.Set("b", bInst)
	case "SetDefault":
		err = dp.SetDefault("b", bInst)
	case "AddFactory":
		err = dp.AddFactory("b", bf)
	case "AddDefaultFactory":
		err = dp.AddDefaultFactory("b", bf)
	}
	if err != nil {
		add("registration-succeeds", id, err.Error())
		return
	}
	if v, err := dp.Get("a"); err == nil {
		add("failed-factory-reports-an-error", id, fmt.Sprintf("first Get(a) returned %v", v))
	}
	if other != "" {
		if v, err := dp.Get("b"); err != nil || v != interface{}(bInst) {
			add("failed-resolution-changes-nothing-else", id, fmt.Sprintf("Get(b) after the failed Get(a): %v, %v", v, err))
		}
	}
	v1, err := dp.Get("a")
	if err != nil {
		add("failed-resolution-changes-no-later-request", id, "the second Get(a), whose factory run succeeds, returned: "+err.Error())
		return
	}
	v2, err := dp.Get("a")
	if err != nil || v2 != v1 {
		add("same-instance-on-every-request", id, fmt.Sprintf("third Get(a): %v, %v", v2, err))
	}
	if runs != 2 {
		add("factory-never-runs-again-after-an-instance", id, fmt.Sprintf("the factory ran %d times", runs))
	}
}

// run registers the definitions in the given order and returns a canonical description of what
// the requests yield; every order-independent requirement is checked on the way.
func run(defs []def, shape string, firstReq string) (outcome string) {
	id := fmt.Sprintf("%v deps=%s first=%s", defs, shape, firstReq)
	defer func() {
		if r := recover(); r != nil {
			add("no-panic", id, fmt.Sprint("panic: ", r))
			outcome = "PANIC"
		}
	}()
	dp := dependency.NewProvider("inject")
	calls := map[string]int{}
	depth := 0
	factory := func(name, label string) app.Factory {
		return func(p app.DependencyProvider) (interface{}, error) {
			calls[label]++
			depth++
			defer func() { depth-- }()
			if depth > 8 {
				panic("factory recursion")
			}
			other := map[string]string{"a": "b", "b": "a"}[name]
			needs := shape == "cycle" || shape == name+"->"+other
			if needs {
				if _, err := p.Get(other); err != nil {
					return nil, fmt.Errorf("%s needs %s: %v", name, other, err)
				}
			}
			return &inst{label}, nil
		}
	}
	for _, d := range defs {
		var err error
		switch d.kind {
		case "Set":
			err = dp.Set(d.name, &inst{d.name + ":explicit-instance"})
		case "SetDefault":
			err = dp.SetDefault(d.name, &inst{d.name + ":default-instance"})
		case "AddFactory":
			err = dp.AddFactory(d.name, factory(d.name, d.name+":explicit-FACTORY"))
		case "AddDefaultFactory":
			err = dp.AddDefaultFactory(d.name, factory(d.name, d.name+":default-FACTORY"))
		}
		if err != nil {
			add("registration-succeeds", id, fmt.Sprintf("%s(%s): %v", d.kind, d.name, err))
		}
	}
	expected := func(name string) string {
		e, dflt := "", ""
		for _, d := range defs {
			if d.name != name {
				continue
			}
			switch d.kind {
			case "Set":
				e = name + ":explicit-instance"
			case "AddFactory":
				e = name + ":explicit-FACTORY"
			case "SetDefault":
				dflt = name + ":default-instance"
			case "AddDefaultFactory":
				dflt = name + ":default-FACTORY"
			}
		}
		if e != "" {
			return e
		}
		return dflt
	}
	usesFactory := func(name string) bool { return strings.Contains(expected(name), "FACTORY") }
	// does resolving name fail? (missing definition, or a needed dependency that fails, or a cycle)
	var fails func(name string, seen map[string]bool) bool
	fails = func(name string, seen map[string]bool) bool {
		if expected(name) == "" {
			return true
		}
		if !usesFactory(name) {
			return false
		}
		if seen[name] {
			return true
		}
		seen[name] = true
		other := map[string]string{"a": "b", "b": "a"}[name]
		if shape == "cycle" || shape == name+"->"+other {
			return fails(other, seen)
		}
		return false
	}
	seenInst := map[string]interface{}{}
	get := func(name string) string {
		v, err := dp.Get(name)
		want := ""
		if name != "missing" {
			want = expected(name)
		}
		shouldFail := name == "missing" || fails(name, map[string]bool{})
		if shouldFail {
			if err == nil {
				add("failing-resolution-is-an-error", id, fmt.Sprintf("Get(%s) returned %v", name, v))
			}
			return name + "=ERROR"
		}
		if err != nil {
			add("explicit-wins-else-default", id, fmt.Sprintf("Get(%s): %v, want %s", name, err, want))
			return name + "=ERROR"
		}
		i, ok := v.(*inst)
		if !ok || i.label != want {
			add("explicit-wins-else-default", id, fmt.Sprintf("Get(%s) = %v, want %s", name, v, want))
		}
		if prev, ok := seenInst[name]; ok && prev != v {
			add("same-instance-on-every-request", id, fmt.Sprintf("Get(%s) returned a different instance the second time", name))
		}
		seenInst[name] = v
		if ok {
			return name + "=" + i.label
		}
		return name + "=?"
	}
	var parts []string
	order := []string{firstReq}
	for _, n := range []string{"a", "b", "missing"} {
		if n != firstReq {
			order = append(order, n)
		}
	}
	for _, n := range append(order, order...) {
		parts = append(parts, get(n))
	}
	// after the first resolution every further definition is refused
	if dp.Set("late", &inst{"late"}) == nil || dp.SetDefault("late", &inst{"late"}) == nil || dp.AddFactory("late", factory("late", "late")) == nil || dp.AddDefaultFactory("late", factory("late", "late")) == nil {
		add("definitions-refused-after-first-resolution", id, "a definition was accepted after Get")
	}
	// injection yields the same instances (b is optional)
	var t target
	ierr := dp.InjectTo(&t)
	if fails("a", map[string]bool{}) {
		if ierr == nil {
			add("injection-of-a-failing-required-field-is-an-error", id, "InjectTo returned nil")
		}
	} else {
		if ierr != nil || t.A == nil || interface{}(t.A) != seenInst["a"] {
			add("injection-yields-the-same-instance", id, fmt.Sprintf("field A = %v (err=%v)", t.A, ierr))
		}
		if !fails("b", map[string]bool{}) && (t.B == nil || interface{}(t.B) != seenInst["b"]) {
			add("injection-yields-the-same-instance", id, fmt.Sprintf("optional field B = %v", t.B))
		}
	}
	// a factory that produced an instance never runs again; a default factory never runs when
	// there is an explicit definition
	for label, n := range calls {
		name := label[:1]
		if expected(name) != label && n > 0 {
			add("overridden-definition-never-runs", id, fmt.Sprintf("%s ran %d times although %s is the definition in force", label, n, expected(name)))
		}
		if !fails(name, map[string]bool{}) && n > 1 {
			add("factory-runs-once", id, fmt.Sprintf("%s ran %d times", label, n))
		}
	}
	return strings.Join(parts, " ")
}
