// Bounded stand-in for the part of C17 that the contracts do not reach (labelled BOUNDED, never
// counted as proved): totality of the command-line splitter over all byte strings up to a bound
// over the alphabet of significant bytes, the "stops at the command's newline" clause on the
// same strings, and the quote/split round trip (arguments rendered with a reference quoting
// function and split again). It drives the real functions of /repo.
//
//	c17 -n <maxlen> [-args <maxargs> -arglen <maxarglen>] [-input <string>] -out <json>
package main

import (
	"encoding/json"
	"flag"
	"fmt"
	"os"
	"strings"
	"time"

	"github.com/goatcms/goatcore/varutil"
)

var alphabet = []byte{' ', '\t', '\n', '"', '\\', '=', '<', 'a', 'E', 0xC3, '\r'}

type failure struct {
	Check string `json:"check"`
	Input string `json:"input"` // Go-quoted
	What  string `json:"what"`
}

type result struct {
	Bound     string    `json:"bound"`
	Cases     int       `json:"cases"`
	Nontriv   int       `json:"distinct_nontrivial"`
	Samples   []string  `json:"samples"`
	Failures  []failure `json:"failures"`
	Exhausted bool      `json:"exhaustive"`
	WallS     float64   `json:"wall_s"`
}

// totality: never panics, returns; on success without eof the reader stands right behind a
// newline; what was consumed does not depend on what follows the command's newline.
func checkTotal(in string) (f *failure, nontrivial bool) {
	defer func() {
		if r := recover(); r != nil {
			f = &failure{"no-panic", fmt.Sprintf("%q", in), fmt.Sprint("panic: ", r)}
		}
	}()
	rd := strings.NewReader(in)
	args, eof, err := varutil.ReadArguments(rd)
	consumed := len(in) - rd.Len()
	// the two entry points are one splitter: SplitArguments(s) is ReadArguments over s
	if sargs, seof, serr := varutil.SplitArguments(in); (serr == nil) != (err == nil) || seof != eof || fmt.Sprintf("%q", sargs) != fmt.Sprintf("%q", args) {
		return &failure{"split-equals-read", fmt.Sprintf("%q", in), fmt.Sprintf("SplitArguments: args=%q eof=%v err=%v; ReadArguments: args=%q eof=%v err=%v", sargs, seof, serr, args, eof, err)}, true
	}
	if err == nil && !eof {
		if consumed == 0 || in[consumed-1] != '\n' {
			return &failure{"stops-at-newline", fmt.Sprintf("%q", in), fmt.Sprintf("returned args=%q without eof after %d bytes, last consumed byte is not a newline", args, consumed)}, true
		}
		// the same command followed by other bytes gives the same arguments and consumption
		rd2 := strings.NewReader(in[:consumed] + "zz q\n")
		args2, eof2, err2 := varutil.ReadArguments(rd2)
		if err2 != nil || eof2 || fmt.Sprint(args2) != fmt.Sprint(args) || len(in[:consumed]+"zz q\n")-rd2.Len() != consumed {
			return &failure{"independent-of-rest", fmt.Sprintf("%q", in), fmt.Sprintf("with a following command: args=%q eof=%v err=%v", args2, eof2, err2)}, true
		}
	}
	if err == nil && eof && consumed != len(in) {
		return &failure{"eof-consumes-all", fmt.Sprintf("%q", in), fmt.Sprintf("eof reported after %d of %d bytes", consumed, len(in))}, true
	}
	return nil, len(args) > 0
}

// quote renders one argument so that the splitter must give it back: backslash and quote are
// escaped outside quotes, blanks, newlines and '<' go into a quoted segment, the rest is literal.
func quote(arg string) string {
	if arg == "" {
		return `""`
	}
	var sb strings.Builder
	for i := 0; i < len(arg); i++ {
		c := arg[i]
		switch c {
		case '\\', '"':
			sb.WriteByte('\\')
			sb.WriteByte(c)
		case ' ', '\t', '\n', '<':
			sb.WriteByte('"')
			sb.WriteByte(c)
			sb.WriteByte('"')
		default:
			sb.WriteByte(c)
		}
	}
	return sb.String()
}

func checkRoundTrip(args []string) *failure {
	parts := make([]string, len(args))
	for i, a := range args {
		parts[i] = quote(a)
	}
	line := strings.Join(parts, " ") + "\n"
	var got []string
	var eof bool
	var err error
	func() {
		defer func() {
			if r := recover(); r != nil {
				err = fmt.Errorf("panic: %v", r)
			}
		}()
		got, eof, err = varutil.SplitArguments(line + "next\n")
	}()
	if err != nil || eof || len(got) != len(args) {
		return &failure{"round-trip", fmt.Sprintf("%q", line), fmt.Sprintf("args %q came back as %q eof=%v err=%v", args, got, eof, err)}
	}
	for i := range args {
		if got[i] != args[i] {
			return &failure{"round-trip", fmt.Sprintf("%q", line), fmt.Sprintf("argument %d: %q came back as %q", i, args[i], got[i])}
		}
	}
	return nil
}

// heredoc: a=<<E, the body, the marker line: the argument is a= followed by the body trimmed of
// surrounding blanks, and the next command is still there.
func checkHeredoc(body string) *failure {
	if strings.Contains(body+"\n", "\nE") {
		return nil // the body itself contains a marker line: outside this check
	}
	in := "a=<<E\n" + body + "\nE\nnext\n"
	var got []string
	var eof bool
	var err error
	rd := strings.NewReader(in)
	func() {
		defer func() {
			if r := recover(); r != nil {
				err = fmt.Errorf("panic: %v", r)
			}
		}()
		got, eof, err = varutil.ReadArguments(rd)
	}()
	want := "a=" + strings.Trim(body, " \t")
	if err != nil || eof || len(got) != 1 || got[0] != want || rd.Len() != len("next\n") {
		return &failure{"heredoc", fmt.Sprintf("%q", in), fmt.Sprintf("want [%q] and 5 bytes left, got %q eof=%v err=%v left=%d", want, got, eof, err, rd.Len())}
	}
	return nil
}

func main() {
	n := flag.Int("n", 5, "maximal input length for the totality check")
	maxArgs := flag.Int("args", 2, "maximal number of arguments for the round trip")
	argLen := flag.Int("arglen", 3, "maximal argument length for the round trip")
	input := flag.String("input", "", "replay: one Go-quoted input of the totality check")
	out := flag.String("out", "", "result file")
	flag.Parse()
	start := time.Now()
	res := result{Bound: fmt.Sprintf("totality: all strings over %d bytes %q up to length %d; round trip: all lists of 1..%d arguments of length 0..%d over the same bytes; heredoc: all bodies up to length %d", len(alphabet), alphabet, *n, *maxArgs, *argLen, *argLen+2), Exhausted: true}
	add := func(f *failure) {
		if f != nil && len(res.Failures) < 5 {
			res.Failures = append(res.Failures, *f)
		}
	}
	if *input != "" {
		var s string
		if _, err := fmt.Sscanf(*input, "%q", &s); err != nil {
			s = *input
		}
		f, _ := checkTotal(s)
		add(f)
		res.Cases = 1
		res.Bound = "replay of one input"
	} else {
		buf := make([]byte, 0, *n)
		var rec func(d int)
		rec = func(d int) {
			f, nt := checkTotal(string(buf))
			res.Cases++
			if nt {
				res.Nontriv++
			}
			if res.Cases%200003 == 1 && len(res.Samples) < 6 {
				res.Samples = append(res.Samples, fmt.Sprintf("%q", string(buf)))
			}
			add(f)
			if d == *n {
				return
			}
			for _, c := range alphabet {
				buf = append(buf, c)
				rec(d + 1)
				buf = buf[:len(buf)-1]
			}
		}
		rec(0)
		// all arguments up to argLen
		var words []string
		wb := make([]byte, 0, *argLen)
		var wrec func(d int)
		wrec = func(d int) {
			words = append(words, string(wb))
			if d == *argLen {
				return
			}
			for _, c := range alphabet {
				wb = append(wb, c)
				wrec(d + 1)
				wb = wb[:len(wb)-1]
			}
		}
		wrec(0)
		var lrec func(cur []string)
		lrec = func(cur []string) {
			if len(cur) > 0 {
				res.Cases++
				res.Nontriv++
				add(checkRoundTrip(cur))
				if res.Cases%100003 == 2 && len(res.Samples) < 12 {
					res.Samples = append(res.Samples, fmt.Sprintf("round trip %q", cur))
				}
			}
			if len(cur) == *maxArgs {
				return
			}
			for _, w := range words {
				lrec(append(cur, w))
			}
		}
		lrec(nil)
		// heredoc bodies
		hb := make([]byte, 0, *argLen+2)
		var hrec func(d int)
		hrec = func(d int) {
			res.Cases++
			res.Nontriv++
			add(checkHeredoc(string(hb)))
			if d == *argLen+2 {
				return
			}
			for _, c := range alphabet {
				hb = append(hb, c)
				hrec(d + 1)
				hb = hb[:len(hb)-1]
			}
		}
		hrec(0)
		// line continuation: backslash-newline between two pieces of text glues them together,
		// whatever stands on either side (word, closed quote, blank)
		pieces := []string{"a", "E=", "\"q r\"", "a ", " a", ""}
		for _, l := range pieces {
			for _, r := range pieces {
				res.Cases++
				res.Nontriv++
				in := l + "\\\n" + r + "\n"
				var want []string
				// reference: remove the continuation, then split on unquoted blanks
				flat := l + r
				cur, open, inq := "", false, false
				for i := 0; i < len(flat); i++ {
					c := flat[i]
					switch {
					case c == '"':
						inq = !inq
						open = true
					case (c == ' ' || c == '\t') && !inq:
						if open {
							want = append(want, cur)
						}
						cur, open = "", false
					default:
						cur += string(c)
						open = true
					}
				}
				if open {
					want = append(want, cur)
				}
				got, eof, err := varutil.ReadArguments(strings.NewReader(in))
				if err != nil || eof || fmt.Sprintf("%q", got) != fmt.Sprintf("%q", want) {
					add(&failure{"continuation-glues", fmt.Sprintf("%q", in), fmt.Sprintf("want %q, got %q eof=%v err=%v", want, got, eof, err)})
				}
			}
		}
	}
	res.WallS = time.Since(start).Seconds()
	b, _ := json.MarshalIndent(res, "", " ")
	if *out != "" {
		os.WriteFile(*out, b, 0644)
	} else {
		fmt.Println(string(b))
	}
	if len(res.Failures) > 0 {
		os.Exit(1)
	}
}
