// Bounded stand-in for C19 over the assumed template-library semantics of the contracts (labelled
// BOUNDED, never counted as proved): for a set of helper / layout / view files with overlapping
// definitions (the more specific layer overrides the more general one, names with '/' and ':'),
// for both providers (html and text) and every sequence of view requests up to a bound, a cached
// provider renders every request exactly as a fresh uncached provider renders that request alone:
// the order of requests and the cache are invisible, definitions of one view never show up in
// another view or in the layout, and asking twice gives the same output. It drives the real
// providers of /repo.
//
//	c19 -len <maximal number of requests> -out <json>
package main

import (
	"bytes"
	"encoding/json"
	"flag"
	"fmt"
	htmpl "html/template"
	"os"
	"strings"
	ttmpl "text/template"
	"time"

	"github.com/goatcms/goatcore/filesystem"
	"github.com/goatcms/goatcore/filesystem/filespace/memfs"
	"github.com/goatcms/goatcore/goathtml"
	"github.com/goatcms/goatcore/goathtml/ghprovider"
	"github.com/goatcms/goatcore/goattext"
	"github.com/goatcms/goatcore/goattext/gtprovider"
)

type failure struct {
	Check string `json:"check"`
	Input string `json:"input"`
	What  string `json:"what"`
}

type result struct {
	Bound     string    `json:"bound"`
	Cases     int       `json:"cases"`
	Nontriv   int       `json:"distinct_nontrivial"`
	Samples   []string  `json:"samples"`
	Failures  []failure `json:"failures"`
	Exhausted bool      `json:"exhaustive"`
	WallS     float64   `json:"wall_s"`
}

var res result

func add(check, in, what string) {
	if len(res.Failures) < 5 {
		res.Failures = append(res.Failures, failure{check, in, what})
	}
}

type renderer func(layout, view string) (string, error)

func tree(ext string) filesystem.Filespace {
	fs, _ := memfs.NewFilespace()
	w := func(p, c string) { fs.WriteFile(p+ext, []byte(c), 0666) }
	// helpers: defaults for every block
	w("helpers/blocks", `{{define "menu"}}helper-menu{{end}}{{define "content"}}helper-content{{end}}{{define "foot"}}helper-foot{{end}}`)
	// layouts
	w("layouts/default/main", `[default {{template "menu" .}}|{{template "content" .}}|{{template "foot" .}}]`)
	w("layouts/two/main", `[two {{template "menu" .}}|{{template "content" .}}|{{template "foot" .}}]{{define "menu"}}two-menu{{end}}`)
	w("layouts/a:b/main", `[a:b {{template "menu" .}}|{{template "content" .}}|{{template "foot" .}}]{{define "foot"}}ab-foot{{end}}`)
	w("layouts/a/main", `[a {{template "menu" .}}|{{template "content" .}}|{{template "foot" .}}]{{define "menu"}}a-menu{{end}}`)
	// views
	w("views/v1/main", `{{define "content"}}v1-content{{end}}`)
	w("views/v2/main", `{{define "content"}}v2-content{{end}}{{define "menu"}}v2-menu{{end}}`)
	w("views/nested/v/main", `{{define "content"}}nested-content{{end}}{{define "foot"}}nested-foot{{end}}`)
	w("views/b:c/main", `{{define "content"}}bc-content{{end}}`)
	w("views/c/main", `{{define "content"}}c-content{{end}}{{define "extra"}}c-extra{{end}}`)
	return fs
}

func htmlProvider(cached bool) renderer {
	p := ghprovider.NewProvider(tree(goathtml.FileExtension), goathtml.HelpersPath, goathtml.LayoutPath, goathtml.ViewPath, goathtml.FileExtension, htmpl.FuncMap{}, cached)
	return func(layout, view string) (out string, err error) {
		defer func() {
			if r := recover(); r != nil {
				err = fmt.Errorf("panic: %v", r)
			}
		}()
		t, err := p.View(layout, view)
		if err != nil {
			return "", err
		}
		var b bytes.Buffer
		err = t.Execute(&b, nil)
		return b.String(), err
	}
}

func textProvider(cached bool) renderer {
	p := gtprovider.NewProvider(tree(goattext.FileExtension), goattext.HelpersPath, goattext.LayoutPath, goattext.ViewPath, goattext.FileExtension, ttmpl.FuncMap{}, cached)
	return func(layout, view string) (out string, err error) {
		defer func() {
			if r := recover(); r != nil {
				err = fmt.Errorf("panic: %v", r)
			}
		}()
		t, err := p.View(layout, view)
		if err != nil {
			return "", err
		}
		var b bytes.Buffer
		err = t.Execute(&b, nil)
		return b.String(), err
	}
}

func main() {
	L := flag.Int("len", 2, "maximal number of view requests of a sequence")
	input := flag.String("input", "", "replay: the recorded input (the bounded space is re-run)")
	out := flag.String("out", "", "result file")
	flag.Parse()
	_ = input
	start := time.Now()
	res.Exhausted = true
	layouts := []string{"", "two", "a:b", "a"}
	views := []string{"v1", "v2", "nested/v", "b:c", "c"}
	type req struct{ l, v string }
	var reqs []req
	for _, l := range layouts {
		for _, v := range views {
			reqs = append(reqs, req{l, v})
		}
	}
	res.Bound = fmt.Sprintf("html and text provider; helpers, layouts %q (\"\" = default) and views %q with overlapping definitions; every sequence of up to %d requests on one cached provider, each answer compared with a fresh uncached provider asked only that request", layouts, views, *L)
	for pname, mk := range map[string]func(bool) renderer{"html": htmlProvider, "text": textProvider} {
		// the reference: every request alone on a fresh uncached provider
		want := map[req]string{}
		for _, r := range reqs {
			o, err := mk(false)(r.l, r.v)
			if err != nil {
				add("uncached-renders", fmt.Sprintf("%s View(%q,%q)", pname, r.l, r.v), err.Error())
			}
			want[r] = o
			// layering: the view's own content wins, the layout's blocks win over the helpers'
			if !strings.Contains(o, "-content") || strings.Contains(o, "helper-content") {
				add("layering", fmt.Sprintf("%s View(%q,%q)", pname, r.l, r.v), "rendered "+o)
			}
		}
		var rec func(seq []req)
		rec = func(seq []req) {
			if len(seq) > 0 {
				res.Cases++
				cachedP := mk(true)
				uncachedP := mk(false)
				var names []string
				for _, r := range seq {
					names = append(names, fmt.Sprintf("View(%q,%q)", r.l, r.v))
					for kind, p := range map[string]renderer{"cached": cachedP, "uncached (same provider)": uncachedP} {
						got, err := p(r.l, r.v)
						if err != nil || got != want[r] {
							add("request-order-and-cache-invisible", pname+" "+strings.Join(names, " ; "), fmt.Sprintf("%s provider renders %q (err=%v), a fresh uncached provider renders %q", kind, got, err, want[r]))
							return
						}
					}
				}
				res.Nontriv++
			}
			if len(seq) == *L {
				return
			}
			for _, r := range reqs {
				rec(append(seq, r))
			}
		}
		rec(nil)
		if len(res.Samples) < 4 {
			res.Samples = append(res.Samples, fmt.Sprintf("%s: View(\"two\",\"v2\") = %s", pname, want[req{"two", "v2"}]))
		}
	}
	res.WallS = time.Since(start).Seconds()
	b, _ := json.MarshalIndent(res, "", " ")
	if *out != "" {
		os.WriteFile(*out, b, 0644)
	} else {
		fmt.Println(string(b))
	}
	if len(res.Failures) > 0 {
		os.Exit(1)
	}
}
