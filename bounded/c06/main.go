// Bounded stand-in for the clauses of C06 and C07 that the contracts do not state (labelled
// BOUNDED, never counted as proved): for every sequence of cache operations up to a bound, over
// overlapping paths of a small tree,
//
//	C06: the remote is untouched before Commit; after a successful Commit (also a second one,
//	     also with a Commit in the middle of the sequence) the remote tree equals the tree
//	     obtained by applying the same successful operations directly to the initial remote;
//	C07: after every operation, what the cache shows (walk of ReadDir/ReadFile, plus
//	     IsExist/IsFile/IsDir/Lstat of every path of interest) equals the directly modified tree.
//
// The reference is the in-memory filespace itself (C01), applied directly. It drives the real
// fscache of /repo.
//
//	c06 -len <L> [-check remote|view|both] -out <json>
package main

import (
	"encoding/json"
	"flag"
	"fmt"
	"io"
	"os"
	"sort"
	"strings"
	"time"

	"github.com/goatcms/goatcore/filesystem"
	"github.com/goatcms/goatcore/filesystem/filespace/memfs"
	"github.com/goatcms/goatcore/filesystem/fscache"
)

type failure struct {
	Check string `json:"check"`
	Input string `json:"input"`
	What  string `json:"what"`
}

type result struct {
	Bound     string    `json:"bound"`
	Cases     int       `json:"cases"`
	Nontriv   int       `json:"distinct_nontrivial"`
	Samples   []string  `json:"samples"`
	Failures  []failure `json:"failures"`
	Exhausted bool      `json:"exhaustive"`
	WallS     float64   `json:"wall_s"`
}

var res result

func add(check string, names []string, what string) {
	if len(res.Failures) < 5 {
		res.Failures = append(res.Failures, failure{check, strings.Join(names, " ; "), what})
	}
}

type op struct {
	name   string
	commit bool
	f      func(fs filesystem.Filespace) error
}

var probe = []string{"a", "a/b", "a/n", "d", "d/x", "d/y", "f", "n", "n/m", "n/b", "a/d", "a/d/x"}

func snapshot(fs filesystem.Filespace, queries bool) string {
	var out []string
	var walk func(dir string)
	walk = func(dir string) {
		infos, err := fs.ReadDir(dir)
		if err != nil {
			return
		}
		for _, i := range infos {
			p := i.Name()
			if dir != "" {
				p = dir + "/" + i.Name()
			}
			if i.IsDir() {
				out = append(out, p+"/")
				walk(p)
			} else {
				d, _ := fs.ReadFile(p)
				out = append(out, p+"="+string(d))
			}
		}
	}
	walk("")
	sort.Strings(out)
	if queries {
		for _, p := range probe {
			_, lerr := fs.Lstat(p)
			out = append(out, fmt.Sprintf("?%s:%v%v%v%v", p, fs.IsExist(p), fs.IsFile(p), fs.IsDir(p), lerr == nil))
		}
	}
	return strings.Join(out, " ")
}

func initial() filesystem.Filespace {
	fs, _ := memfs.NewFilespace()
	fs.WriteFile("a/b", []byte("AB"), 0666)
	fs.WriteFile("d/x", []byte("DX"), 0666)
	fs.WriteFile("f", []byte("F"), 0666)
	return fs
}

func ops() []op {
	var out []op
	for _, p := range []string{"a", "a/b", "a/n", "d", "f", "n", "n/m"} {
		p := p
		out = append(out, op{"WriteFile(" + p + ")", false, func(fs filesystem.Filespace) error { return fs.WriteFile(p, []byte("new:"+p), 0666) }})
		out = append(out, op{"MkdirAll(" + p + ")", false, func(fs filesystem.Filespace) error { return fs.MkdirAll(p, 0777) }})
		out = append(out, op{"Remove(" + p + ")", false, func(fs filesystem.Filespace) error { return fs.Remove(p) }})
		out = append(out, op{"RemoveAll(" + p + ")", false, func(fs filesystem.Filespace) error { return fs.RemoveAll(p) }})
	}
	for _, p := range []string{"a/b", "n/m"} {
		p := p
		out = append(out, op{"Writer(" + p + ")", false, func(fs filesystem.Filespace) error {
			w, err := fs.Writer(p)
			if err != nil {
				return err
			}
			if _, err = io.WriteString(w, "stream:"+p); err != nil {
				w.Close()
				return err
			}
			return w.Close()
		}})
	}
	for _, pq := range [][2]string{{"a", "n"}, {"f", "n"}, {"a/b", "d/y"}, {"d", "a/d"}} {
		pq := pq
		out = append(out, op{"Copy(" + pq[0] + "," + pq[1] + ")", false, func(fs filesystem.Filespace) error { return fs.Copy(pq[0], pq[1]) }})
	}
	out = append(out, op{"CopyFile(f,a/n)", false, func(fs filesystem.Filespace) error { return fs.CopyFile("f", "a/n") }})
	out = append(out, op{"CopyDirectory(d,n)", false, func(fs filesystem.Filespace) error { return fs.CopyDirectory("d", "n") }})
	out = append(out, op{"Commit", true, nil})
	return out
}

func main() {
	L := flag.Int("len", 2, "maximal number of operations of a history")
	check := flag.String("check", "both", "remote (C06), view (C07) or both")
	input := flag.String("input", "", "replay: the recorded history (the bounded space is re-run)")
	out := flag.String("out", "", "result file")
	flag.Parse()
	_ = input
	start := time.Now()
	res.Exhausted = true
	all := ops()
	var names0 []string
	for _, o := range all {
		names0 = append(names0, o.name)
	}
	res.Bound = fmt.Sprintf("initial remote {a/b, d/x, f}; all histories of up to %d operations from %v (a history stops counting at the first operation that fails when applied directly); final Commit, then a second Commit; check=%s", *L, names0, *check)
	base := snapshot(initial(), false)
	run1 := func(seq []op) {
		res.Cases++
		direct := initial()
		remote := initial()
		cache, err := fscache.NewMemCache(remote)
		if err != nil {
			add("setup", nil, err.Error())
			return
		}
		var names []string
		committed := base
		defer func() {
			if r := recover(); r != nil {
				add("no-panic", names, fmt.Sprint("panic: ", r))
			}
		}()
		for _, o := range seq {
			names = append(names, o.name)
			if o.commit {
				if err := cache.Commit(); err != nil {
					add("commit-succeeds", names, err.Error())
					return
				}
				committed = snapshot(direct, false)
				if got := snapshot(remote, false); *check != "view" && got != committed {
					add("remote-equals-direct-after-commit", names, "remote: "+got+" | direct: "+committed)
					return
				}
				continue
			}
			if derr := o.f(direct); derr != nil {
				return // only successful operations are part of the property
			}
			if cerr := o.f(cache); cerr != nil {
				add("operation-succeeds-through-cache", names, cerr.Error())
				return
			}
			if *check != "view" {
				if got := snapshot(remote, false); got != committed {
					add("remote-untouched-before-commit", names, "remote: "+got+" | expected: "+committed)
					return
				}
			}
			if *check != "remote" {
				if a, b := snapshot(cache, true), snapshot(direct, true); a != b {
					add("view-equals-direct", names, "cache: "+a+" | direct: "+b)
					return
				}
			}
		}
		res.Nontriv++
		if *check == "view" {
			return
		}
		names = append(names, "Commit")
		if err := cache.Commit(); err != nil {
			add("commit-succeeds", names, err.Error())
			return
		}
		want := snapshot(direct, false)
		if got := snapshot(remote, false); got != want {
			add("remote-equals-direct-after-commit", names, "remote: "+got+" | direct: "+want)
			return
		}
		names = append(names, "Commit")
		if err := cache.Commit(); err != nil {
			add("second-commit-succeeds", names, err.Error())
			return
		}
		if got := snapshot(remote, false); got != want {
			add("remote-equals-direct-after-second-commit", names, "remote: "+got+" | direct: "+want)
		}
	}
	var rec func(seq []op)
	rec = func(seq []op) {
		if len(seq) > 0 {
			run1(seq)
			if res.Cases%5003 == 7 && len(res.Samples) < 8 {
				var n []string
				for _, o := range seq {
					n = append(n, o.name)
				}
				res.Samples = append(res.Samples, strings.Join(n, " ; "))
			}
		}
		if len(seq) == *L {
			return
		}
		for _, o := range all {
			rec(append(seq, o))
		}
	}
	rec(nil)
	res.WallS = time.Since(start).Seconds()
	b, _ := json.MarshalIndent(res, "", " ")
	if *out != "" {
		os.WriteFile(*out, b, 0644)
	} else {
		fmt.Println(string(b))
	}
	if len(res.Failures) > 0 {
		os.Exit(1)
	}
}
