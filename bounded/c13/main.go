// Bounded stand-in for C13 (labelled BOUNDED, never counted as proved): the real data scopes.
// (1) Overlay: every history of at most -len operations on a root scope, its child and the
// child's child - SetValue and Value of two keys on each scope, directly or inside a locked
// section (LockData ... Commit) of any of the three - is compared after every step with three
// reference maps: a scope answers with its own value when it has one, else with its parent's
// current answer; a write never changes another scope; Keys lists exactly the scope's own keys.
// (2) Exclusion: while one goroutine holds the data lock of a scope, a Value, SetValue, Keys or
// LockData of another goroutine on that scope does not take effect before Commit (it is still
// blocked after a grace period and completes after Commit); the parent stays usable.
// (3) No lost update: 8 goroutines x 200 locked read-modify-write increments add up exactly.
//
//	c13 -len 3 -out <json>
package main

import (
	"encoding/json"
	"flag"
	"fmt"
	"os"
	"sort"
	"strings"
	"sync"
	"time"

	"github.com/goatcms/goatcore/app"
	"github.com/goatcms/goatcore/app/scope/datascope"
)

type failure struct {
	Check string `json:"check"`
	Input string `json:"input"`
	What  string `json:"what"`
}

type result struct {
	Bound     string    `json:"bound"`
	Cases     int       `json:"cases"`
	Nontriv   int       `json:"distinct_nontrivial"`
	Samples   []string  `json:"samples"`
	Failures  []failure `json:"failures"`
	Exhausted bool      `json:"exhaustive"`
	WallS     float64   `json:"wall_s"`
}

var res result
var resMu sync.Mutex

func add(check, in, what string) {
	resMu.Lock()
	defer resMu.Unlock()
	if len(res.Failures) < 6 {
		res.Failures = append(res.Failures, failure{check, in, what})
	}
}

var keys = []string{"a", "b"}
var names = []string{"root", "child", "grandchild"}

// an operation: on scope S (0..2), through a locked section or not, set key K to V or read
type op struct {
	scope  int
	locked bool
	set    bool
	key    int
	val    int
}

func (o op) String() string {
	s := names[o.scope]
	if o.locked {
		s = "locked(" + s + ")"
	}
	if o.set {
		return fmt.Sprintf("%s.SetValue(%s,%d)", s, keys[o.key], o.val)
	}
	return fmt.Sprintf("%s.Value(%s)", s, keys[o.key])
}

func allOps() []op {
	var out []op
	for s := 0; s < 3; s++ {
		for _, locked := range []bool{false, true} {
			for k := range keys {
				out = append(out, op{s, locked, false, k, 0})
				for v := 1; v <= 2; v++ {
					out = append(out, op{s, locked, true, k, v})
				}
			}
		}
	}
	return out
}

func refValue(ref []map[string]int, s int, k string) interface{} {
	for i := s; i >= 0; i-- {
		if v, ok := ref[i][k]; ok {
			return v
		}
	}
	return nil
}

func runHistory(h []op) {
	id := ""
	for i, o := range h {
		if i > 0 {
			id += " ; "
		}
		id += o.String()
	}
	defer func() {
		if r := recover(); r != nil {
			add("no-panic", id, fmt.Sprint(r))
		}
	}()
	scopes := make([]app.DataScope, 3)
	scopes[0] = datascope.New(map[interface{}]interface{}{})
	scopes[1] = datascope.NewChild(scopes[0], map[interface{}]interface{}{})
	scopes[2] = datascope.NewChild(scopes[1], map[interface{}]interface{}{})
	ref := []map[string]int{{}, {}, {}}
	for step, o := range h {
		var target app.DataScope = scopes[o.scope]
		var lk app.DataScopeLocker
		if o.locked {
			lk = scopes[o.scope].LockData()
			target = lk
		}
		if o.set {
			target.SetValue(keys[o.key], o.val)
			ref[o.scope][keys[o.key]] = o.val
		} else {
			got := target.Value(keys[o.key])
			if want := refValue(ref, o.scope, keys[o.key]); got != want {
				add("own-value-else-parents", id, fmt.Sprintf("step %d: %s = %v, expected %v", step+1, o, got, want))
			}
		}
		if lk != nil {
			// inside the section the locker answers like the scope
			for _, k := range keys {
				if got, want := lk.Value(k), refValue(ref, o.scope, k); got != want {
					add("locked-section-reads-like-the-scope", id, fmt.Sprintf("step %d: locked(%s).Value(%s) = %v, expected %v", step+1, names[o.scope], k, got, want))
				}
			}
			if err := lk.Commit(); err != nil {
				add("commit", id, err.Error())
			}
		}
		for s := 0; s < 3; s++ {
			for _, k := range keys {
				if got, want := scopes[s].Value(k), refValue(ref, s, k); got != want {
					add("own-value-else-parents", id, fmt.Sprintf("after step %d: %s.Value(%s) = %v, expected %v", step+1, names[s], k, got, want))
				}
			}
			var got []string
			for _, k := range scopes[s].Keys() {
				got = append(got, fmt.Sprint(k))
			}
			sort.Strings(got)
			var want []string
			for k := range ref[s] {
				want = append(want, k)
			}
			sort.Strings(want)
			if strings.Join(got, ",") != strings.Join(want, ",") {
				add("write-stays-in-its-scope", id, fmt.Sprintf("after step %d: %s.Keys() = %v, expected %v", step+1, names[s], got, want))
			}
		}
	}
}

// exclusion: kind 0 root scope, 1 child scope, 2 a locker's own nested LockData
func exclusion(kind int, other string) {
	id := fmt.Sprintf("holder of %s data lock; other goroutine calls %s", []string{"root", "child"}[kind], other)
	root := datascope.New(map[interface{}]interface{}{"a": 0})
	var scp app.DataScope = root
	if kind == 1 {
		scp = datascope.NewChild(root, map[interface{}]interface{}{"a": 0})
	}
	lk := scp.LockData()
	lk.SetValue("a", 1) // an intermediate value nobody else may see
	done := make(chan interface{}, 1)
	go func() {
		defer func() {
			if r := recover(); r != nil {
				done <- fmt.Sprint("PANIC ", r)
			}
		}()
		switch other {
		case "Value":
			done <- scp.Value("a")
		case "SetValue":
			scp.SetValue("a", 7)
			done <- "set"
		case "Keys":
			done <- len(scp.Keys())
		case "LockData":
			l2 := scp.LockData()
			v := l2.Value("a")
			l2.Commit()
			done <- v
		}
	}()
	select {
	case v := <-done:
		add("locked-section-is-exclusive", id, fmt.Sprintf("the call took effect inside the locked section (returned %v)", v))
		lk.Commit()
		return
	case <-time.After(20 * time.Millisecond):
	}
	if kind == 1 {
		// the parent is another scope: it stays usable
		pd := make(chan struct{})
		go func() { root.SetValue("p", 1); root.Value("p"); close(pd) }()
		select {
		case <-pd:
		case <-time.After(5 * time.Second):
			add("lock-covers-only-its-scope", id, "the parent scope is blocked while the child's data lock is held")
		}
	}
	lk.SetValue("a", 2)
	if other == "SetValue" {
		// the other goroutine's write must not have landed in between
		if v := lk.Value("a"); v != 2 {
			add("locked-section-is-exclusive", id, fmt.Sprintf("value changed inside the section: %v", v))
		}
	}
	lk.Commit()
	select {
	case v := <-done:
		if other == "Value" || other == "LockData" {
			if v != 2 {
				add("reads-see-committed-value", id, fmt.Sprintf("read %v after the section committed 2", v))
			}
		}
		if s, ok := v.(string); ok && strings.HasPrefix(s, "PANIC") {
			add("no-panic", id, s)
		}
	case <-time.After(5 * time.Second):
		add("no-block-forever", id, "the call did not complete within 5 s after Commit")
	}
}

// nested sections: two goroutines that each open a locked section on the same locker exclude each
// other like two sections on a scope do
func nestedExclusion(kind int) {
	id := fmt.Sprintf("two nested LockData sections on one locker of a %s scope", []string{"root", "child"}[kind])
	root := datascope.New(map[interface{}]interface{}{"n": 0})
	var scp app.DataScope = root
	if kind == 1 {
		scp = datascope.NewChild(root, map[interface{}]interface{}{"n": 0})
	}
	outer := scp.LockData()
	first := outer.LockData()
	first.SetValue("n", 1)
	entered := make(chan struct{}, 1)
	finished := make(chan struct{}, 1)
	go func() {
		defer func() {
			if r := recover(); r != nil {
				add("no-panic", id, fmt.Sprint(r))
			}
			finished <- struct{}{}
		}()
		second := outer.LockData()
		entered <- struct{}{}
		v, _ := second.Value("n").(int)
		second.SetValue("n", v+1)
		second.Commit()
	}()
	select {
	case <-entered:
		add("locked-section-is-exclusive", id, "the second nested section was entered while the first was still open")
	case <-time.After(20 * time.Millisecond):
	}
	first.SetValue("n", 10)
	first.Commit()
	select {
	case <-finished:
	case <-time.After(5 * time.Second):
		add("no-block-forever", id, "the second nested section did not finish within 5 s after the first committed")
		return
	}
	if v := outer.Value("n"); v != 11 && v != 2 {
		add("no-lost-update", id, fmt.Sprintf("n = %v", v))
	}
	outer.Commit()
}

func lostUpdate(kind int) {
	root := datascope.New(map[interface{}]interface{}{"n": 0})
	var scp app.DataScope = root
	if kind == 1 {
		scp = datascope.NewChild(root, map[interface{}]interface{}{})
	}
	const G, N = 8, 200
	var wg sync.WaitGroup
	for g := 0; g < G; g++ {
		wg.Add(1)
		go func() {
			defer wg.Done()
			for i := 0; i < N; i++ {
				lk := scp.LockData()
				v, _ := lk.Value("n").(int)
				lk.SetValue("n", v+1)
				lk.Commit()
			}
		}()
	}
	fin := make(chan struct{})
	go func() { wg.Wait(); close(fin) }()
	select {
	case <-fin:
	case <-time.After(20 * time.Second):
		add("no-block-forever", fmt.Sprintf("lost-update run on %s", []string{"root", "child"}[kind]), "not finished after 20 s")
		return
	}
	if v := scp.Value("n"); v != G*N {
		add("no-lost-update", fmt.Sprintf("%d goroutines x %d locked increments on %s", G, N, []string{"root", "child"}[kind]), fmt.Sprintf("counter = %v, expected %d", v, G*N))
	}
}

func main() {
	flag.String("input", "", "replay: the recorded input (the bounded space is re-run)")
	out := flag.String("out", "", "result file")
	maxLen := flag.Int("len", 3, "history length")
	flag.Parse()
	start := time.Now()
	res.Exhausted = true
	res.Bound = fmt.Sprintf("all histories of <= %d operations from 36 (SetValue of 2 values / Value of 2 keys on root, child, grandchild, directly or inside LockData..Commit); exclusion of Value, SetValue, Keys, LockData against a held data lock on a root and a child scope (20 ms grace); 8 x 200 locked increments", *maxLen)
	ops := allOps()
	var rec func(h []op)
	rec = func(h []op) {
		if len(h) > 0 {
			res.Cases++
			res.Nontriv++
			if res.Cases%9973 == 0 && len(res.Samples) < 8 {
				s := ""
				for _, o := range h {
					s += o.String() + " ; "
				}
				res.Samples = append(res.Samples, s)
			}
			runHistory(h)
		}
		if len(h) == *maxLen {
			return
		}
		for _, o := range ops {
			rec(append(append([]op{}, h...), o))
		}
	}
	rec(nil)
	var wg sync.WaitGroup
	for kind := 0; kind <= 1; kind++ {
		for _, other := range []string{"Value", "SetValue", "Keys", "LockData"} {
			res.Cases++
			wg.Add(1)
			go func(kind int, other string) { defer wg.Done(); exclusion(kind, other) }(kind, other)
		}
		res.Cases++
		wg.Add(1)
		go func(kind int) { defer wg.Done(); nestedExclusion(kind) }(kind)
		res.Cases++
		wg.Add(1)
		go func(kind int) { defer wg.Done(); lostUpdate(kind) }(kind)
	}
	wg.Wait()
	res.WallS = time.Since(start).Seconds()
	b, _ := json.MarshalIndent(res, "", " ")
	if *out != "" {
		os.WriteFile(*out, b, 0644)
	} else {
		fmt.Println(string(b))
	}
	if len(res.Failures) > 0 {
		os.Exit(1)
	}
}
