// Bounded stand-in for C14 and C16 (labelled BOUNDED, never counted as proved): the real pipeline
// runner, task manager, terminal loop and pip:try command inside a mock application assembled
// like the repository's own tests assemble it.
//
// -check tasks (C14): every submission sequence of at most -n tasks; each task waits for any
// subset of the tasks submitted before it; each body is one of four scripts of probe commands
// (ok / failing / ok,failing,ok / ok,ok). Also: a task waiting for an unknown name, for itself.
// Oracle: the body of a task with a (transitively) failed prerequisite never runs and the task
// ends failed; the events of a body are a prefix of its script, in order, ending at the first
// failing command - the whole script when nothing in the scenario fails; every event of a
// prerequisite precedes every event of the waiting task; an unknown or circular wait is refused
// and runs nothing; TasksManager.Wait returns (watchdog) with an error iff some task failed.
//
// -check try (C16): pip:try with body ok / failing / spawning a slow sub-task that succeeds or
// fails / making the surrounding scope fail; success, fail and finally handler each absent / ok / failing.
// Oracle: success runs iff the body (with the tasks it spawned) ended without error, fail iff it
// ended with one, finally in both cases; handlers start after the last event of the body and of
// its sub-task; the surrounding scope fails iff a handler that ran failed.
//
//	c14 -check tasks -n 3 -out <json>
package main

import (
	"encoding/json"
	"errors"
	"flag"
	"fmt"
	"os"
	"strings"
	"sync"
	"time"

	"github.com/goatcms/goatcore/app"
	"github.com/goatcms/goatcore/app/bootstrap"
	"github.com/goatcms/goatcore/app/gio"
	"github.com/goatcms/goatcore/app/gio/bufferio"
	"github.com/goatcms/goatcore/app/goatapp"
	"github.com/goatcms/goatcore/app/modules/commonm"
	"github.com/goatcms/goatcore/app/modules/commonm/commservices"
	"github.com/goatcms/goatcore/app/modules/ocm"
	"github.com/goatcms/goatcore/app/modules/ocm/ocservices"
	"github.com/goatcms/goatcore/app/modules/pipelinem/pipcommands/pipc"
	"github.com/goatcms/goatcore/app/modules/pipelinem/pipservices"
	"github.com/goatcms/goatcore/app/modules/pipelinem/pipservices/namespaces"
	"github.com/goatcms/goatcore/app/modules/pipelinem/pipservices/runner"
	"github.com/goatcms/goatcore/app/modules/pipelinem/pipservices/sandboxes"
	"github.com/goatcms/goatcore/app/modules/pipelinem/pipservices/sandboxes/containersb"
	"github.com/goatcms/goatcore/app/modules/pipelinem/pipservices/sandboxes/selfsb"
	"github.com/goatcms/goatcore/app/modules/pipelinem/pipservices/tasks"
	"github.com/goatcms/goatcore/app/modules/terminalm"
	"github.com/goatcms/goatcore/app/modules/terminalm/termservices"
	"github.com/goatcms/goatcore/app/scope"
	"github.com/goatcms/goatcore/app/terminal"
	"github.com/goatcms/goatcore/filesystem/filespace/memfs"
	"github.com/goatcms/goatcore/varutil/goaterr"
)

type failure struct {
	Check string `json:"check"`
	Input string `json:"input"`
	What  string `json:"what"`
}

type result struct {
	Bound     string    `json:"bound"`
	Cases     int       `json:"cases"`
	Nontriv   int       `json:"distinct_nontrivial"`
	Samples   []string  `json:"samples"`
	Failures  []failure `json:"failures"`
	Exhausted bool      `json:"exhaustive"`
	WallS     float64   `json:"wall_s"`
}

var res result
var resMu sync.Mutex

func add(check, in, what string) {
	resMu.Lock()
	defer resMu.Unlock()
	if len(res.Failures) < 6 {
		res.Failures = append(res.Failures, failure{check, in, what})
	}
}

// ---------------- the event log shared by the probe commands of one scenario ----------------

type evlog struct {
	mu      sync.Mutex
	entries []string
	gate    chan struct{}
}

const logKey = "verif-event-log"

func (l *evlog) add(s string) {
	l.mu.Lock()
	l.entries = append(l.entries, s)
	l.mu.Unlock()
}

func (l *evlog) snapshot() []string {
	l.mu.Lock()
	defer l.mu.Unlock()
	return append([]string{}, l.entries...)
}

var errProbe = errors.New("probe command failed")

// probe commands: ok_<tag> logs <tag>; bad_<tag> logs <tag> and fails; slow variants sleep first
func registerProbes(term app.TerminalManager, tags []string) {
	// poison: the surrounding application scope fails while the body runs (as a sibling task could make it)
	term.SetCommand(terminal.NewCommand(terminal.CommandParams{
		Name: "poison",
		Callback: func(a app.App, ctx app.IOContext) error {
			if lg, _ := ctx.Scope().Value(logKey).(*evlog); lg != nil {
				lg.add("body.1")
			}
			a.Scopes().App().AppendError(errors.New("a sibling failed"))
			return nil
		},
	}))
	for _, tag := range tags {
		tag := tag
		for _, kind := range []string{"ok", "bad", "slowok", "slowbad"} {
			kind := kind
			term.SetCommand(terminal.NewCommand(terminal.CommandParams{
				Name: kind + "_" + tag,
				Callback: func(a app.App, ctx app.IOContext) error {
					lg, _ := ctx.Scope().Value(logKey).(*evlog)
					if lg == nil {
						return fmt.Errorf("no event log in scope")
					}
					<-lg.gate
					if strings.HasPrefix(kind, "slow") {
						time.Sleep(2 * time.Millisecond)
					} else {
						time.Sleep(100 * time.Microsecond)
					}
					lg.add(tag)
					if strings.HasSuffix(kind, "bad") {
						return errProbe
					}
					return nil
				},
			}))
		}
	}
}

func newApp(args []string) (mapp *goatapp.MockupApp, boot app.Bootstrap, err error) {
	if mapp, err = goatapp.NewMockupApp(goatapp.Params{Arguments: args}); err != nil {
		return nil, nil, err
	}
	dp := mapp.DependencyProvider()
	if err = goaterr.ToError(goaterr.AppendError(nil,
		dp.AddDefaultFactory(pipservices.NamespacesUnitService, namespaces.UnitFactory),
		dp.AddDefaultFactory(pipservices.TasksUnitService, tasks.UnitFactory),
		dp.AddDefaultFactory(pipservices.SandboxesManagerService, sandboxes.ManagerFactory),
		dp.AddDefaultFactory(pipservices.RunnerService, runner.Factory),
	)); err != nil {
		return nil, nil, err
	}
	mapp.Terminal().SetCommand(pipc.RunCommand(), pipc.TryCommand())
	boot = bootstrap.NewBootstrap(mapp)
	if err = goaterr.ToError(goaterr.AppendError(nil,
		boot.Register(terminalm.NewModule()),
		boot.Register(commonm.NewModule()),
		boot.Register(ocm.NewModule()),
		boot.Init(),
	)); err != nil {
		return nil, nil, err
	}
	var deps struct {
		Manager          pipservices.SandboxesManager  `dependency:"PipSandboxesManager"`
		Terminal         termservices.Terminal         `dependency:"TerminalService"`
		EnvironmentsUnit commservices.EnvironmentsUnit `dependency:"CommonEnvironmentsUnit"`
		OCManager        ocservices.Manager            `dependency:"OCManager"`
	}
	if err = mapp.DependencyProvider().InjectTo(&deps); err != nil {
		return nil, nil, err
	}
	builder, err := selfsb.NewSandboxBuilder(deps.Terminal)
	if err != nil {
		return nil, nil, err
	}
	deps.Manager.Add(builder)
	deps.Manager.Add(containersb.NewContainerSandboxBuilder(deps.EnvironmentsUnit, deps.OCManager))
	return mapp, boot, nil
}

// ---------------- C14: tasks with wait lists ----------------

var bodies = [][]string{{"ok"}, {"bad"}, {"ok", "bad", "ok"}, {"ok", "ok"}}

type taskSpec struct {
	Wait []int // indices of earlier tasks
	Body int
}

type tasksScenario struct {
	Tasks   []taskSpec
	Invalid string // "", "unknown", "self": an extra submission that must be refused
}

func (s tasksScenario) String() string {
	var parts []string
	for i, t := range s.Tasks {
		var w []string
		for _, j := range t.Wait {
			w = append(w, fmt.Sprintf("t%d", j+1))
		}
		parts = append(parts, fmt.Sprintf("t%d(wait=[%s] body=%s)", i+1, strings.Join(w, ","), strings.Join(bodies[t.Body], ",")))
	}
	if s.Invalid != "" {
		parts = append(parts, "then a task waiting for "+s.Invalid)
	}
	return strings.Join(parts, " ; ")
}

func tag(task, pos int) string { return fmt.Sprintf("t%d.%d", task+1, pos+1) }

func script(task int, body []string) string {
	var lines []string
	for j, k := range body {
		lines = append(lines, k+"_"+tag(task, j))
	}
	return strings.Join(lines, "\n")
}

// the dependency provider is not meant for concurrent first resolutions: resolved once, up front
type tasksDeps struct {
	Runner    pipservices.Runner    `dependency:"PipRunner"`
	TasksUnit pipservices.TasksUnit `dependency:"PipTasksUnit"`
}

func runTasks(deps *tasksDeps, s tasksScenario) {
	id := s.String()
	defer func() {
		if r := recover(); r != nil {
			add("no-panic", id, fmt.Sprint(r))
		}
	}()
	lg := &evlog{gate: make(chan struct{})}
	scp := scope.New(scope.Params{})
	scp.SetValue(logKey, lg)
	cwd, _ := memfs.NewFilespace()
	buf := bufferio.NewBuffer()
	submit := func(name string, wait []string, body string) error {
		return deps.Runner.Run(pipservices.Pip{
			Context: pipservices.PipContext{
				In:    gio.NewInput(strings.NewReader(body)),
				Out:   bufferio.NewBufferOutput(buf),
				Err:   bufferio.NewBufferOutput(buf),
				Scope: scp,
				CWD:   cwd,
			},
			Name:       name,
			Namespaces: namespaces.NewNamespaces(pipservices.NamasepacesParams{}),
			Sandbox:    "self",
			Lock:       commservices.LockMap{},
			Wait:       wait,
		})
	}
	for i, t := range s.Tasks {
		var wait []string
		for _, j := range t.Wait {
			wait = append(wait, fmt.Sprintf("t%d", j+1))
		}
		if err := submit(fmt.Sprintf("t%d", i+1), wait, script(i, bodies[t.Body])); err != nil {
			add("valid-submission-accepted", id, fmt.Sprintf("t%d refused: %v", i+1, err))
			close(lg.gate)
			return
		}
	}
	switch s.Invalid {
	case "unknown":
		if err := submit("bad", []string{"ghost"}, "ok_x.1"); err == nil {
			add("unknown-wait-refused", id, "a task waiting for the unknown task 'ghost' was accepted")
		}
	case "self":
		if err := submit("bad", []string{"bad"}, "ok_x.1"); err == nil {
			add("unknown-wait-refused", id, "a task waiting for itself was accepted")
		}
	}
	manager, err := deps.TasksUnit.FromScope(scp)
	if err != nil {
		add("setup", id, err.Error())
		close(lg.gate)
		return
	}
	close(lg.gate)
	var waitErr error
	done := make(chan struct{})
	go func() {
		defer func() {
			if r := recover(); r != nil {
				add("no-panic", id, fmt.Sprint(r))
			}
			close(done)
		}()
		waitErr = manager.Wait()
	}()
	select {
	case <-done:
	case <-time.After(20 * time.Second):
		add("every-accepted-task-finishes", id, "TasksManager.Wait did not return within 20 s; events "+strings.Join(lg.snapshot(), " "))
		return
	}
	events := lg.snapshot()
	// expected
	failed := make([]bool, len(s.Tasks))  // ends failed
	blocked := make([]bool, len(s.Tasks)) // has a failed prerequisite
	anyFail := false
	for i, t := range s.Tasks {
		for _, j := range t.Wait {
			if failed[j] {
				blocked[i] = true
			}
		}
		hasBad := false
		for _, k := range bodies[t.Body] {
			if k == "bad" {
				hasBad = true
			}
		}
		failed[i] = blocked[i] || hasBad
		if failed[i] {
			anyFail = true
		}
	}
	pos := map[string]int{}
	for i, e := range events {
		if _, dup := pos[e]; dup {
			add("commands-run-once-in-order", id, "event "+e+" twice: "+strings.Join(events, " "))
		}
		pos[e] = i
	}
	if pos["x.1"] != 0 || contains(events, "x.1") {
		add("unknown-wait-refused", id, "the refused task's body ran: "+strings.Join(events, " "))
	}
	for i, t := range s.Tasks {
		var want []string
		for j, k := range bodies[t.Body] {
			want = append(want, tag(i, j))
			if k == "bad" {
				break
			}
		}
		var got []string
		for _, e := range events {
			if strings.HasPrefix(e, fmt.Sprintf("t%d.", i+1)) {
				got = append(got, e)
			}
		}
		if blocked[i] {
			if len(got) != 0 {
				add("never-runs-after-failed-prerequisite", id, fmt.Sprintf("t%d ran %v although a prerequisite failed", i+1, got))
			}
		} else if !anyFail {
			if strings.Join(got, " ") != strings.Join(want, " ") {
				add("commands-in-script-order-stop-at-first-failure", id, fmt.Sprintf("t%d ran %v, expected %v", i+1, got, want))
			}
		} else if len(got) > len(want) || strings.Join(got, " ") != strings.Join(want[:len(got)], " ") {
			add("commands-in-script-order-stop-at-first-failure", id, fmt.Sprintf("t%d ran %v, expected a prefix of %v", i+1, got, want))
		}
		for _, j := range t.Wait {
			for _, e := range events {
				if strings.HasPrefix(e, fmt.Sprintf("t%d.", j+1)) && len(got) > 0 && pos[e] > pos[got[0]] {
					add("body-starts-after-wait-list-finished", id, fmt.Sprintf("t%d started before t%d finished: %s", i+1, j+1, strings.Join(events, " ")))
				}
			}
		}
		task, ok := manager.Get(fmt.Sprintf("t%d", i+1))
		if !ok {
			add("task-exists", id, fmt.Sprintf("t%d is unknown to the manager", i+1))
			continue
		}
		// (Task.Done() is never set by the repository - a cosmetic accessor outside C14's statement;
		// "finished" is observed as: the task's Wait returns)
		fin := make(chan struct{})
		go func() { task.Wait(); close(fin) }()
		select {
		case <-fin:
		case <-time.After(5 * time.Second):
			add("every-accepted-task-finishes", id, fmt.Sprintf("waiting on t%d does not return after TasksManager.Wait returned", i+1))
		}
		if failed[i] && !anyOther(failed, i) && len(task.Errors()) == 0 {
			add("failed-task-ends-failed", id, fmt.Sprintf("t%d holds no error", i+1))
		}
		if blocked[i] && len(task.Errors()) == 0 {
			add("failed-task-ends-failed", id, fmt.Sprintf("t%d (failed prerequisite) holds no error", i+1))
		}
		if !anyFail && len(task.Errors()) != 0 {
			add("no-error-without-failure", id, fmt.Sprintf("t%d holds %v", i+1, task.Errors()))
		}
	}
	if (waitErr != nil) != anyFail {
		add("wait-reports-iff-some-task-failed", id, fmt.Sprintf("TasksManager.Wait returned %v; some task expected to fail: %v", waitErr, anyFail))
	}
}

func anyOther(l []bool, _ int) bool { return false }

func contains(l []string, s string) bool {
	for _, e := range l {
		if e == s {
			return true
		}
	}
	return false
}

// ---------------- C16: pip:try ----------------

type tryScenario struct {
	Body    string // ok, bad, subok, subbad
	Success string // "", ok, bad
	Fail    string
	Finally string
}

func (s tryScenario) String() string {
	b, _ := json.Marshal(s)
	return string(b)
}

func runTry(s tryScenario) {
	id := s.String()
	defer func() {
		if r := recover(); r != nil {
			add("no-panic", id, fmt.Sprint(r))
		}
	}()
	var body string
	switch s.Body {
	case "ok":
		body = "ok_body.1\nok_body.2"
	case "bad":
		body = "ok_body.1\nbad_body.2\nok_body.3"
	case "subok":
		body = "ok_body.1\npip:run --name=sub --body=slowok_sub.1 --silent=false\nok_body.2"
	case "subbad":
		body = "ok_body.1\npip:run --name=sub --body=slowbad_sub.1 --silent=false\nok_body.2"
	case "poison":
		body = "poison"
	}
	args := []string{"appname", "pip:try", "--name=blk", "--body=" + body, "--silent=false"}
	for _, h := range []struct{ name, kind string }{{"success", s.Success}, {"fail", s.Fail}, {"finally", s.Finally}} {
		if h.kind != "" {
			args = append(args, fmt.Sprintf("--%s=%s_%s.1", h.name, h.kind, h.name))
		}
	}
	mapp, boot, err := newApp(args)
	if err != nil {
		add("setup", id, err.Error())
		return
	}
	registerProbes(mapp.Terminal(), []string{"body.1", "body.2", "body.3", "sub.1", "success.1", "fail.1", "finally.1"})
	lg := &evlog{gate: make(chan struct{})}
	close(lg.gate)
	mapp.Scopes().App().SetValue(logKey, lg)
	var runErr, waitErr error
	done := make(chan struct{})
	go func() {
		defer func() {
			if r := recover(); r != nil {
				add("no-panic", id, fmt.Sprint(r))
			}
			close(done)
		}()
		runErr = boot.Run()
		waitErr = mapp.Scopes().App().Wait()
	}()
	select {
	case <-done:
	case <-time.After(20 * time.Second):
		add("try-finishes", id, "the application did not finish within 20 s; events "+strings.Join(lg.snapshot(), " "))
		return
	}
	events := lg.snapshot()
	if s.Body == "poison" {
		// the surrounding scope failed under the block: the handlers cannot be submitted any more;
		// what must hold is that the application reports an error (and that nothing panicked or
		// hung, which the watchdog and the runtime check)
		if runErr == nil && waitErr == nil {
			add("failure-of-the-surrounding-scope-is-reported", id, fmt.Sprintf("Run and Wait returned nil; events %v", events))
		}
		return
	}
	bodyFails := s.Body == "bad" || s.Body == "subbad"
	ran := func(tag string) bool { return contains(events, tag) }
	// a handler that fails kills the surrounding scope, which may stop the other handlers (they
	// run as tasks of the same scope) before their first command: "must run" is only asserted
	// when no other handler that runs fails; "must not run" always
	otherBad := func(self string) bool {
		return (self != "success" && s.Success == "bad" && !bodyFails) || (self != "fail" && s.Fail == "bad" && bodyFails) || (self != "finally" && s.Finally == "bad")
	}
	expect := func(check, tag, self string, should bool) {
		if ran(tag) && !should {
			add(check, id, fmt.Sprintf("%s handler ran; body failed: %v, events %v", self, bodyFails, events))
		}
		if !ran(tag) && should && !otherBad(self) {
			add(check, id, fmt.Sprintf("%s handler did not run; body failed: %v, events %v", self, bodyFails, events))
		}
	}
	expect("success-handler-iff-body-succeeded", "success.1", "success", s.Success != "" && !bodyFails)
	expect("fail-handler-iff-body-failed", "fail.1", "fail", s.Fail != "" && bodyFails)
	expect("finally-handler-always", "finally.1", "finally", s.Finally != "")
	if ran("body.3") {
		add("body-stops-at-first-failure", id, fmt.Sprintf("events %v", events))
	}
	lastBody, firstHandler := -1, -1
	for i, e := range events {
		if strings.HasPrefix(e, "body.") || strings.HasPrefix(e, "sub.") {
			lastBody = i
		} else if firstHandler < 0 {
			firstHandler = i
		}
	}
	if firstHandler >= 0 && firstHandler < lastBody {
		add("handlers-start-after-the-body-and-its-tasks", id, fmt.Sprintf("events %v", events))
	}
	handlerFails := (s.Success == "bad" && !bodyFails) || (s.Fail == "bad" && bodyFails) || s.Finally == "bad"
	scopeFailed := runErr != nil || waitErr != nil
	if scopeFailed != handlerFails {
		add("only-a-failing-handler-fails-the-surrounding-scope", id, fmt.Sprintf("Run returned %v, the application scope's Wait %v; a handler that ran failed: %v; events %v", runErr, waitErr, handlerFails, events))
	}
}

// a try block followed by another pipeline command in the same surrounding scope (one terminal
// loop over a fresh scope): the failure of the body stays inside the block also afterwards - the
// later command runs, and the surrounding scope does not fail
func runTryThen(s tryScenario) {
	id := s.String() + " ; then pip:run --name=second --body=ok_later.1 in the same scope"
	defer func() {
		if r := recover(); r != nil {
			add("no-panic", id, fmt.Sprint(r))
		}
	}()
	body := "ok_body.1"
	if s.Body == "bad" {
		body = "bad_body.1"
	}
	line := "pip:try --name=first --silent=false --body=" + body
	for _, h := range []struct{ name, kind string }{{"success", s.Success}, {"fail", s.Fail}, {"finally", s.Finally}} {
		if h.kind != "" {
			line += fmt.Sprintf(" --%s=%s_%s.1", h.name, h.kind, h.name)
		}
	}
	script := line + "\npip:run --name=second --silent=false --body=ok_later.1\n"
	mapp, _, err := newApp(nil)
	if err != nil {
		add("setup", id, err.Error())
		return
	}
	registerProbes(mapp.Terminal(), []string{"body.1", "later.1", "success.1", "fail.1", "finally.1"})
	var deps struct {
		Terminal termservices.Terminal `dependency:"TerminalService"`
	}
	if err = mapp.DependencyProvider().InjectTo(&deps); err != nil {
		add("setup", id, err.Error())
		return
	}
	lg := &evlog{gate: make(chan struct{})}
	close(lg.gate)
	surrounding := scope.New(scope.Params{})
	surrounding.SetValue(logKey, lg)
	cwd, _ := memfs.NewFilespace()
	buf := bufferio.NewBuffer()
	ctx := gio.NewIOContext(surrounding, gio.NewIO(gio.IOParams{
		In:  gio.NewInput(strings.NewReader(script)),
		Out: bufferio.NewBufferOutput(buf),
		Err: bufferio.NewBufferOutput(buf),
		CWD: cwd,
	}))
	var scopeErr error
	done := make(chan struct{})
	go func() {
		defer func() {
			if r := recover(); r != nil {
				add("no-panic", id, fmt.Sprint(r))
			}
			close(done)
		}()
		deps.Terminal.RunLoop(ctx, "")
		scopeErr = surrounding.Wait()
	}()
	select {
	case <-done:
	case <-time.After(20 * time.Second):
		add("try-finishes", id, "the terminal loop did not finish within 20 s; events "+strings.Join(lg.snapshot(), " "))
		return
	}
	events := lg.snapshot()
	n := 0
	for _, e := range events {
		if e == "later.1" {
			n++
		}
	}
	if n != 1 {
		add("body-failure-stays-inside-the-block", id, fmt.Sprintf("the command after the block ran %d times; events %v; scope error %v", n, events, scopeErr))
	}
	if scopeErr != nil {
		add("only-a-failing-handler-fails-the-surrounding-scope", id, fmt.Sprintf("no handler failed, the surrounding scope reports %v; events %v", scopeErr, events))
	}
}

// full: enough failing inputs are recorded; the rest of the space is skipped (and the run is no
// longer exhaustive), so a tree on which every scenario hangs does not take hours
func full() bool {
	resMu.Lock()
	defer resMu.Unlock()
	return len(res.Failures) >= 6
}

func main() {
	flag.String("input", "", "replay: the recorded input (the bounded space is re-run)")
	out := flag.String("out", "", "result file")
	check := flag.String("check", "tasks", "tasks (C14) | try (C16)")
	n := flag.Int("n", 3, "tasks per scenario")
	flag.Parse()
	start := time.Now()
	res.Exhausted = true
	sem := make(chan struct{}, 8)
	var wg sync.WaitGroup
	if *check == "tasks" {
		res.Bound = fmt.Sprintf("submission sequences of <= %d tasks, every wait list over earlier tasks, four body scripts (ok / bad / ok,bad,ok / ok,ok); plus a refused submission (unknown name, itself) after each sequence of <= 2", *n)
		mapp, _, err := newApp(nil)
		if err != nil {
			add("setup", "mock application", err.Error())
		} else {
			var tags []string
			for i := 0; i < *n; i++ {
				for j := 0; j < 3; j++ {
					tags = append(tags, tag(i, j))
				}
			}
			registerProbes(mapp.Terminal(), append(tags, "x.1"))
			deps := &tasksDeps{}
			if err := mapp.DependencyProvider().InjectTo(deps); err != nil {
				add("setup", "mock application", err.Error())
			}
			var rec func(ts []taskSpec)
			launch := func(s tasksScenario) {
				if full() {
					res.Exhausted = false
					return
				}
				res.Cases++
				if res.Cases%97 == 0 && len(res.Samples) < 8 {
					res.Samples = append(res.Samples, s.String())
				}
				wg.Add(1)
				sem <- struct{}{}
				go func() { defer wg.Done(); defer func() { <-sem }(); runTasks(deps, s) }()
			}
			rec = func(ts []taskSpec) {
				if len(ts) > 0 {
					launch(tasksScenario{Tasks: ts})
					if len(ts) <= 2 {
						launch(tasksScenario{Tasks: ts, Invalid: "unknown"})
						launch(tasksScenario{Tasks: ts, Invalid: "self"})
					}
				}
				if len(ts) == *n {
					return
				}
				i := len(ts)
				for mask := 0; mask < 1<<i; mask++ {
					var w []int
					for j := 0; j < i; j++ {
						if mask&(1<<j) != 0 {
							w = append(w, j)
						}
					}
					for b := range bodies {
						rec(append(append([]taskSpec{}, ts...), taskSpec{w, b}))
					}
				}
			}
			rec(nil)
			wg.Wait()
		}
	} else {
		res.Bound = "pip:try with body ok / failing / spawning a slow sub-task that succeeds / fails; or failing the surrounding application scope; success, fail, finally handler each absent / ok / failing (135 blocks), each in its own mock application"
		for _, b := range []string{"ok", "bad", "subok", "subbad", "poison"} {
			for _, su := range []string{"", "ok", "bad"} {
				for _, fa := range []string{"", "ok", "bad"} {
					for _, fi := range []string{"", "ok", "bad"} {
						s := tryScenario{b, su, fa, fi}
						if full() {
							res.Exhausted = false
							continue
						}
						res.Cases++
						if res.Cases%17 == 0 && len(res.Samples) < 8 {
							res.Samples = append(res.Samples, s.String())
						}
						wg.Add(1)
						sem <- struct{}{}
						go func() { defer wg.Done(); defer func() { <-sem }(); runTry(s) }()
					}
				}
			}
		}
		for _, b := range []string{"ok", "bad"} {
			for _, su := range []string{"", "ok"} {
				for _, fa := range []string{"", "ok"} {
					for _, fi := range []string{"", "ok"} {
						s := tryScenario{b, su, fa, fi}
						if full() {
							res.Exhausted = false
							continue
						}
						res.Cases++
						wg.Add(1)
						sem <- struct{}{}
						go func() { defer wg.Done(); defer func() { <-sem }(); runTryThen(s) }()
					}
				}
			}
		}
		wg.Wait()
	}
	res.Nontriv = res.Cases
	res.WallS = time.Since(start).Seconds()
	b, _ := json.MarshalIndent(res, "", " ")
	if *out != "" {
		os.WriteFile(*out, b, 0644)
	} else {
		fmt.Println(string(b))
	}
	if len(res.Failures) > 0 {
		os.Exit(1)
	}
}
