// Bounded stand-in for the parts of C20 that the contracts do not reach (labelled BOUNDED, never
// counted as proved): (1) flattening a nested map and rebuilding it are mutually inverse, over
// all nested maps up to a bound; (2) writing a flat string map as JSON (both writers) and reading
// it back returns the same map, over all values up to a bound over a set of significant
// characters; the output is valid JSON and decodes, with a standard decoder, to the nested map;
// (3) reading a document written by encoding/json yields the flattened leaves with escapes
// decoded. It drives the real functions of /repo.
//
//	c20 -depth <d> -vlen <n> -out <json>
package main

import (
	"encoding/json"
	"flag"
	"fmt"
	"os"
	"reflect"
	"time"

	"github.com/goatcms/goatcore/filesystem/filespace/memfs"
	"github.com/goatcms/goatcore/i18n/fsi18loader"
	"github.com/goatcms/goatcore/i18n/i18mem"
	"github.com/goatcms/goatcore/varutil/plainmap"
)

type failure struct {
	Check string `json:"check"`
	Input string `json:"input"`
	What  string `json:"what"`
}

type result struct {
	Bound     string    `json:"bound"`
	Cases     int       `json:"cases"`
	Nontriv   int       `json:"distinct_nontrivial"`
	Samples   []string  `json:"samples"`
	Failures  []failure `json:"failures"`
	Exhausted bool      `json:"exhaustive"`
	WallS     float64   `json:"wall_s"`
}

var res result

func add(f *failure) {
	if f != nil && len(res.Failures) < 5 {
		res.Failures = append(res.Failures, *f)
	}
}

var keys = []string{"a", "b", "ab"}

// all nested maps of the given depth budget: each key is absent, a leaf, or (if depth left) a
// non-empty sub-map
func nested(depth int) []map[string]interface{} {
	var subs []map[string]interface{}
	if depth > 1 {
		for _, m := range nested(depth - 1) {
			if len(m) > 0 {
				subs = append(subs, m)
			}
		}
	}
	leaves := []interface{}{"x", ""}
	var out []map[string]interface{}
	var rec func(i int, cur map[string]interface{})
	rec = func(i int, cur map[string]interface{}) {
		if i == len(keys) {
			cp := map[string]interface{}{}
			for k, v := range cur {
				cp[k] = v
			}
			out = append(out, cp)
			return
		}
		rec(i+1, cur)
		for _, l := range leaves {
			cur[keys[i]] = l
			rec(i+1, cur)
		}
		if i < 2 { // sub-maps under the first two keys only, to keep the space small
			for _, sm := range subs {
				cur[keys[i]] = sm
				rec(i+1, cur)
			}
		}
		delete(cur, keys[i])
	}
	rec(0, map[string]interface{}{})
	return out
}

func checkFlatten(m map[string]interface{}) *failure {
	var err error
	var flat, back map[string]interface{}
	func() {
		defer func() {
			if r := recover(); r != nil {
				err = fmt.Errorf("panic: %v", r)
			}
		}()
		if flat, err = plainmap.RecursiveMapToPlainMap(m); err != nil {
			return
		}
		back, err = plainmap.ToRecursiveMap(flat)
	}()
	if err != nil || !reflect.DeepEqual(back, m) {
		return &failure{"flatten-rebuild", fmt.Sprintf("%v", m), fmt.Sprintf("flat=%v rebuilt=%v err=%v", flat, back, err)}
	}
	// and the other way round
	flat2, err2 := plainmap.RecursiveMapToPlainMap(back)
	if err2 != nil || !reflect.DeepEqual(flat2, flat) {
		return &failure{"rebuild-flatten", fmt.Sprintf("%v", flat), fmt.Sprintf("flattened again=%v err=%v", flat2, err2)}
	}
	return nil
}

var chars = []string{"a", "\"", "\\", "\n", "\t", "\x01", "é", "<", "&", " ", "u"}

func checkJSON(flat map[string]string) *failure {
	for name, w := range map[string]func(map[string]string) (string, error){"PlainStringMapToJSON": plainmap.PlainStringMapToJSON, "PlainStringMapToFormattedJSON": plainmap.PlainStringMapToFormattedJSON} {
		var doc string
		var back map[string]string
		var err error
		func() {
			defer func() {
				if r := recover(); r != nil {
					err = fmt.Errorf("panic: %v", r)
				}
			}()
			if doc, err = w(flat); err != nil {
				return
			}
			back, err = plainmap.JSONToPlainStringMap([]byte(doc))
		}()
		if err != nil || !reflect.DeepEqual(back, flat) {
			return &failure{"json-write-read " + name, fmt.Sprintf("%q", flat), fmt.Sprintf("document %q read back as %q err=%v", doc, back, err)}
		}
		// the document is JSON that a standard decoder reads as the nested form of the map
		var std map[string]interface{}
		if err := json.Unmarshal([]byte(doc), &std); err != nil {
			return &failure{"json-valid " + name, fmt.Sprintf("%q", flat), fmt.Sprintf("document %q: %v", doc, err)}
		}
		want, _ := plainmap.StringMapToRecursiveMap(flat)
		if !reflect.DeepEqual(std, want) {
			return &failure{"json-standard-decoder " + name, fmt.Sprintf("%q", flat), fmt.Sprintf("document %q decodes to %v, want %v", doc, std, want)}
		}
	}
	return nil
}

func checkRead(m map[string]interface{}, flatWant map[string]string) *failure {
	doc, _ := json.Marshal(m)
	got, err := plainmap.JSONToPlainStringMap(doc)
	if err != nil || !reflect.DeepEqual(got, flatWant) {
		return &failure{"json-read", string(doc), fmt.Sprintf("read as %q, want %q, err=%v", got, flatWant, err)}
	}
	return nil
}

func mergeKey(cur interface{}, key, val string) interface{} {
	m, ok := cur.(map[string]interface{})
	if !ok {
		m = map[string]interface{}{}
	}
	m[key] = val
	return m
}

func main() {
	depth := flag.Int("depth", 2, "nesting depth of the maps")
	vlen := flag.Int("vlen", 2, "maximal length (in characters of the significant set) of JSON values")
	vlen2 := flag.Int("vlen2", -1, "maximal length of the second value (default: vlen)")
	input := flag.String("input", "", "replay: the recorded input (the whole bounded space is re-run, it takes a second)")
	reps := flag.Int("reps", 5, "repetitions of every loader layout (scheduling)")
	bigFiles := flag.Int("bigfiles", 1000, "files of the many-files loader run")
	bigReps := flag.Int("bigreps", 40, "loads of the many-files tree")
	out := flag.String("out", "", "result file")
	flag.Parse()
	_ = input
	if *vlen2 < 0 {
		*vlen2 = *vlen
	}
	start := time.Now()
	res.Exhausted = true
	res.Bound = fmt.Sprintf("nested maps over keys %q, leaves \"x\"/\"\", depth <= %d; flat maps {a: v1, b.c: v2, b.d: v1} for all v1 of up to %d and v2 of up to %d characters from %q (both JSON writers); encoding/json documents {k: v1, n: {k: v2, num: 7}}; translation directories of 1..16 files nested 0..3 deep, each layout loaded %d times", keys, *depth, *vlen, *vlen2, chars, *reps)
	for _, m := range nested(*depth) {
		res.Cases++
		if len(m) > 0 {
			res.Nontriv++
		}
		if res.Cases%4001 == 2 && len(res.Samples) < 4 {
			res.Samples = append(res.Samples, fmt.Sprintf("%v", m))
		}
		add(checkFlatten(m))
	}
	// deeper maps: every subset of a prefix-free set of dotted paths (depth up to 4), built as a
	// flat map, rebuilt and flattened again
	paths := []string{"a", "b.a", "b.b", "b.ab.a", "b.ab.b.a", "b.ab.b.b", "ab"}
	for mask := 1; mask < 1<<len(paths); mask++ {
		flat := map[string]interface{}{}
		for i, p := range paths {
			if mask&(1<<i) != 0 {
				flat[p] = "v" + p
			}
		}
		res.Cases++
		res.Nontriv++
		var err error
		var nestedMap, back map[string]interface{}
		func() {
			defer func() {
				if r := recover(); r != nil {
					err = fmt.Errorf("panic: %v", r)
				}
			}()
			if nestedMap, err = plainmap.ToRecursiveMap(flat); err != nil {
				return
			}
			back, err = plainmap.RecursiveMapToPlainMap(nestedMap)
		}()
		if err != nil || !reflect.DeepEqual(back, flat) {
			add(&failure{"rebuild-flatten-deep", fmt.Sprintf("%v", flat), fmt.Sprintf("nested=%v flattened=%v err=%v", nestedMap, back, err)})
		}
	}
	// values
	var vals []string
	var vrec func(cur string, d int)
	vrec = func(cur string, d int) {
		vals = append(vals, cur)
		if d == *vlen {
			return
		}
		for _, c := range chars {
			vrec(cur+c, d+1)
		}
	}
	vrec("", 0)
	for _, v1 := range vals {
		for _, v2 := range vals {
			if len([]rune(v2)) > *vlen2 {
				continue
			}
			res.Cases++
			res.Nontriv++
			flat := map[string]string{"a": v1, "b.c": v2, "b.d": v1}
			add(checkJSON(flat))
			add(checkRead(map[string]interface{}{"k": v1, "n": map[string]interface{}{"k": v2, "num": 7}}, map[string]string{"k": v1, "n.k": v2, "n.num": "7"}))
			if res.Cases%3001 == 5 && len(res.Samples) < 10 {
				res.Samples = append(res.Samples, fmt.Sprintf("flat %q", flat))
			}
		}
	}
	// loading a directory of translation files: every key of every file is translatable,
	// whatever the number of files, their nesting and the scheduling of the loader
	for _, files := range []int{1, 2, 3, 7, 16} {
		for _, depth := range []int{0, 1, 3} {
			for rep := 0; rep < *reps; rep++ {
				res.Cases++
				res.Nontriv++
				fs, _ := memfs.NewFilespace()
				want := map[string]string{}
				for f := 0; f < files; f++ {
					dir := ""
					for d := 0; d < depth; d++ {
						dir += fmt.Sprintf("d%d_%d/", d, f%(d+2))
					}
					doc := map[string]interface{}{}
					for k := 0; k < 3; k++ {
						key := fmt.Sprintf("k%d", k)
						val := fmt.Sprintf("value %d/%d \"q\" \\ \n é", f, k)
						doc[fmt.Sprintf("f%d", f)] = mergeKey(doc[fmt.Sprintf("f%d", f)], key, val)
						want[fmt.Sprintf("f%d.%s", f, key)] = val
					}
					raw, _ := json.Marshal(doc)
					fs.WriteFile(fmt.Sprintf("%sf%d.json", dir, f), raw, 0666)
					fs.WriteFile(fmt.Sprintf("%signored%d.txt", dir, f), []byte("not json"), 0666)
				}
				i18 := i18mem.NewI18N()
				var err error
				func() {
					defer func() {
						if r := recover(); r != nil {
							err = fmt.Errorf("panic: %v", r)
						}
					}()
					err = fsi18loader.Load(fs, "./", i18, nil)
				}()
				if err != nil {
					add(&failure{"loader", fmt.Sprintf("files=%d depth=%d", files, depth), err.Error()})
					continue
				}
				for k, v := range want {
					if got, terr := i18.Translate(k); terr != nil || got != v {
						add(&failure{"loader-every-key-translatable", fmt.Sprintf("files=%d depth=%d key=%s", files, depth, k), fmt.Sprintf("Translate = %q, %v; want %q", got, terr, v)})
						break
					}
				}
			}
		}
	}
	// many files, so that several consumers of the loader's tree walk run its callback at the
	// same time (schedules sampled): one unique key per file, every key must be translatable
	for rep := 0; rep < *bigReps; rep++ {
		res.Cases++
		fs, _ := memfs.NewFilespace()
		for f := 0; f < *bigFiles; f++ {
			fs.WriteFile(fmt.Sprintf("d%d/f%d.json", f%7, f), []byte(fmt.Sprintf(`{"big%d":{"k":"value %d"}}`, f, f)), 0666)
		}
		i18 := i18mem.NewI18N()
		var err error
		func() {
			defer func() {
				if r := recover(); r != nil {
					err = fmt.Errorf("panic: %v", r)
				}
			}()
			err = fsi18loader.Load(fs, "./", i18, nil)
		}()
		if err != nil {
			add(&failure{"loader", fmt.Sprintf("files=%d (one key each), load %d", *bigFiles, rep), err.Error()})
			break
		}
		missing := 0
		first := ""
		for f := 0; f < *bigFiles; f++ {
			if got, terr := i18.Translate(fmt.Sprintf("big%d.k", f)); terr != nil || got != fmt.Sprintf("value %d", f) {
				if missing == 0 {
					first = fmt.Sprintf("big%d.k", f)
				}
				missing++
			}
		}
		if missing > 0 {
			add(&failure{"loader-every-key-translatable", fmt.Sprintf("files=%d (one key each), load %d", *bigFiles, rep), fmt.Sprintf("%d keys are not translatable, first %s", missing, first)})
			break
		}
	}
	res.WallS = time.Since(start).Seconds()
	b, _ := json.MarshalIndent(res, "", " ")
	if *out != "" {
		os.WriteFile(*out, b, 0644)
	} else {
		fmt.Println(string(b))
	}
	if len(res.Failures) > 0 {
		os.Exit(1)
	}
}
