// Bounded stand-in for C03 over the assumption A-LEX of the contracts (labelled BOUNDED, never
// counted as proved): for every kind of view (memory, disk, sub-path, read-only, cache-backed,
// encrypted, and a view of a view) rooted in the directory "base" of a parent tree, and for every
// path spelling up to a bound, each of the 16 operations either fails or stays inside the view:
// the parent tree outside "base" stays byte-identical and nothing read or listed through the view
// comes from outside it. It drives the real filespaces of /repo (the disk one in a fresh
// temporary directory).
//
//	c03 -segs <maxsegments> -out <json>
package main

import (
	"encoding/json"
	"flag"
	"fmt"
	"io"
	"os"
	"sort"
	"strings"
	"time"

	"github.com/goatcms/goatcore/filesystem"
	"github.com/goatcms/goatcore/filesystem/filespace/diskfs"
	"github.com/goatcms/goatcore/filesystem/filespace/encryptfs"
	"github.com/goatcms/goatcore/filesystem/filespace/encryptfs/cipherfs/aesgcm256cfs"
	"github.com/goatcms/goatcore/filesystem/filespace/memfs"
	"github.com/goatcms/goatcore/filesystem/fscache"
	"github.com/goatcms/goatcore/filesystem/fshelper"
)

type failure struct {
	Check string `json:"check"`
	Input string `json:"input"`
	What  string `json:"what"`
}

type result struct {
	Bound     string    `json:"bound"`
	Cases     int       `json:"cases"`
	Nontriv   int       `json:"distinct_nontrivial"`
	Samples   []string  `json:"samples"`
	Failures  []failure `json:"failures"`
	Exhausted bool      `json:"exhaustive"`
	WallS     float64   `json:"wall_s"`
}

var res result

func add(check, in, what string) {
	if len(res.Failures) < 5 {
		res.Failures = append(res.Failures, failure{check, in, what})
	}
}

const secret = "TOP-SECRET-OUTSIDE"

// outside: the part of the parent tree that is not under base/
func outside(parent filesystem.Filespace) string {
	var out []string
	var walk func(dir string)
	walk = func(dir string) {
		infos, err := parent.ReadDir(dir)
		if err != nil {
			return
		}
		for _, i := range infos {
			p := i.Name()
			if dir != "" {
				p = dir + "/" + i.Name()
			}
			if p == "base" {
				continue
			}
			if i.IsDir() {
				out = append(out, p+"/")
				walk(p)
			} else {
				d, _ := parent.ReadFile(p)
				out = append(out, fmt.Sprintf("%s=%x", p, d))
			}
		}
	}
	walk("")
	sort.Strings(out)
	return strings.Join(out, " ")
}

func populate(fs filesystem.Filespace) {
	fs.WriteFile("secret.txt", []byte(secret), 0666)
	fs.WriteFile("base2/other.txt", []byte(secret), 0666)
	fs.WriteFile("base/in.txt", []byte("inside"), 0666)
	fs.MkdirAll("base/sub", 0777)
}

type kind struct {
	name string
	mk   func() (parent filesystem.Filespace, view filesystem.Filespace, cleanup func(), err error)
}

func kinds() []kind {
	mem := func() filesystem.Filespace { fs, _ := memfs.NewFilespace(); populate(fs); return fs }
	return []kind{
		{"memory child view", func() (filesystem.Filespace, filesystem.Filespace, func(), error) {
			p := mem()
			v, err := p.Filespace("base")
			return p, v, func() {}, err
		}},
		{"view of a memory view", func() (filesystem.Filespace, filesystem.Filespace, func(), error) {
			p := mem()
			v, err := p.Filespace("base")
			if err != nil {
				return p, nil, func() {}, err
			}
			v2, err := v.Filespace("sub")
			return p, v2, func() {}, err
		}},
		{"sub-path view (fshelper.SubFS)", func() (filesystem.Filespace, filesystem.Filespace, func(), error) {
			p := mem()
			return p, fshelper.NewSubFS(p, "base"), func() {}, nil
		}},
		{"read-only view of a child", func() (filesystem.Filespace, filesystem.Filespace, func(), error) {
			p := mem()
			v, err := fshelper.NewReadonlyFS(p).Filespace("base")
			return p, v, func() {}, err
		}},
		{"cache child view", func() (filesystem.Filespace, filesystem.Filespace, func(), error) {
			p := mem()
			c, err := fscache.NewMemCache(p)
			if err != nil {
				return p, nil, func() {}, err
			}
			v, err := c.Filespace("base")
			// the cache's own view of the outside is what must not change or leak
			return c, v, func() {}, err
		}},
		{"encrypted child view", func() (filesystem.Filespace, filesystem.Filespace, func(), error) {
			p := mem()
			e, err := encryptfs.NewEncryptFS(p, encryptfs.Settings{Secret: []byte("s"), Salt: []byte("t"), Cipher: aesgcm256cfs.NewCipher()})
			if err != nil {
				return p, nil, func() {}, err
			}
			v, err := e.Filespace("base")
			return p, v, func() {}, err
		}},
		{"disk child view", func() (filesystem.Filespace, filesystem.Filespace, func(), error) {
			dir, err := os.MkdirTemp("", "verif-c03-")
			if err != nil {
				return nil, nil, func() {}, err
			}
			p, err := diskfs.NewFilespace(dir)
			if err != nil {
				return nil, nil, func() { os.RemoveAll(dir) }, err
			}
			populate(p)
			v, err := p.Filespace("base")
			return p, v, func() { os.RemoveAll(dir) }, err
		}},
	}
}

type op struct {
	name string
	f    func(v filesystem.Filespace, q string) (string, error)
}

func ops() []op {
	return []op{
		{"ReadFile", func(v filesystem.Filespace, q string) (string, error) { d, err := v.ReadFile(q); return string(d), err }},
		{"Reader", func(v filesystem.Filespace, q string) (string, error) {
			r, err := v.Reader(q)
			if err != nil {
				return "", err
			}
			defer r.Close()
			d, err := io.ReadAll(r)
			return string(d), err
		}},
		{"ReadDir", func(v filesystem.Filespace, q string) (string, error) {
			infos, err := v.ReadDir(q)
			var n []string
			for _, i := range infos {
				n = append(n, i.Name())
			}
			return strings.Join(n, ","), err
		}},
		{"Lstat", func(v filesystem.Filespace, q string) (string, error) {
			i, err := v.Lstat(q)
			if err != nil {
				return "", err
			}
			return i.Name(), nil
		}},
		{"IsExist", func(v filesystem.Filespace, q string) (string, error) { return fmt.Sprint(v.IsExist(q)), nil }},
		{"IsFile", func(v filesystem.Filespace, q string) (string, error) { return fmt.Sprint(v.IsFile(q)), nil }},
		{"IsDir", func(v filesystem.Filespace, q string) (string, error) { return fmt.Sprint(v.IsDir(q)), nil }},
		{"WriteFile", func(v filesystem.Filespace, q string) (string, error) {
			return "", v.WriteFile(q, []byte("written"), 0666)
		}},
		{"Writer", func(v filesystem.Filespace, q string) (string, error) {
			w, err := v.Writer(q)
			if err != nil {
				return "", err
			}
			io.WriteString(w, "streamed")
			return "", w.Close()
		}},
		{"MkdirAll", func(v filesystem.Filespace, q string) (string, error) { return "", v.MkdirAll(q, 0777) }},
		{"Remove", func(v filesystem.Filespace, q string) (string, error) { return "", v.Remove(q) }},
		{"RemoveAll", func(v filesystem.Filespace, q string) (string, error) { return "", v.RemoveAll(q) }},
		{"Copy(in.txt -> q)", func(v filesystem.Filespace, q string) (string, error) { return "", v.Copy("in.txt", q) }},
		{"Copy(q -> stolen)", func(v filesystem.Filespace, q string) (string, error) {
			err := v.Copy(q, "stolen")
			d, _ := v.ReadFile("stolen")
			return string(d), err
		}},
		{"CopyFile(q -> stolen)", func(v filesystem.Filespace, q string) (string, error) {
			err := v.CopyFile(q, "stolen")
			d, _ := v.ReadFile("stolen")
			return string(d), err
		}},
		{"CopyDirectory(q -> stolen)", func(v filesystem.Filespace, q string) (string, error) {
			err := v.CopyDirectory(q, "stolen")
			d, _ := v.ReadFile("stolen/other.txt")
			return string(d), err
		}},
		{"Filespace(q).ReadFile", func(v filesystem.Filespace, q string) (string, error) {
			c, err := v.Filespace(q)
			if err != nil || c == nil {
				return "", err
			}
			for _, n := range []string{"secret.txt", "other.txt", "base2/other.txt"} {
				if d, err := c.ReadFile(n); err == nil && strings.Contains(string(d), secret) {
					return string(d), nil
				}
			}
			return "", nil
		}},
	}
}

func main() {
	maxSegs := flag.Int("segs", 3, "maximal number of segments of a spelling")
	input := flag.String("input", "", "replay: the recorded input (the bounded space is re-run)")
	out := flag.String("out", "", "result file")
	flag.Parse()
	_ = input
	start := time.Now()
	res.Exhausted = true
	segs := []string{"..", ".", "", "base", "base2", "secret.txt", "sub"}
	var spellings []string
	var rec func(cur []string)
	rec = func(cur []string) {
		if len(cur) > 0 {
			p := strings.Join(cur, "/")
			spellings = append(spellings, p, "/"+p)
		}
		if len(cur) == *maxSegs {
			return
		}
		for _, s := range segs {
			rec(append(cur, s))
		}
	}
	rec(nil)
	all := ops()
	var onames []string
	for _, o := range all {
		onames = append(onames, o.name)
	}
	var knames []string
	for _, k := range kinds() {
		knames = append(knames, k.name)
	}
	res.Bound = fmt.Sprintf("view kinds %v rooted in base/ of a tree with secret.txt and base2/ outside; all spellings of up to %d segments from %q, rooted or not; operations %v, each on a fresh tree", knames, *maxSegs, segs, onames)
	for _, k := range kinds() {
		for _, o := range all {
			for _, q := range spellings {
				func() {
					id := fmt.Sprintf("%s | %s | %q", k.name, o.name, q)
					parent, view, cleanup, err := k.mk()
					defer cleanup()
					if err != nil || view == nil {
						add("setup", id, fmt.Sprint(err))
						return
					}
					res.Cases++
					before := outside(parent)
					defer func() {
						if r := recover(); r != nil {
							add("no-panic", id, fmt.Sprint("panic: ", r))
						}
					}()
					got, operr := o.f(view, q)
					if strings.Contains(got, secret) || strings.Contains(got, "secret.txt") || strings.Contains(got, "base2") {
						add("nothing-from-outside", id, fmt.Sprintf("returned %q (err=%v)", got, operr))
					}
					if after := outside(parent); after != before {
						add("outside-unchanged", id, fmt.Sprintf("outside the view: before %q, after %q (err=%v)", before, after, operr))
					}
					if operr == nil {
						res.Nontriv++
					}
				}()
			}
		}
		if len(res.Samples) < 8 {
			res.Samples = append(res.Samples, fmt.Sprintf("%s: %d operations x %d spellings", k.name, len(all), len(spellings)))
		}
	}
	res.WallS = time.Since(start).Seconds()
	b, _ := json.MarshalIndent(res, "", " ")
	if *out != "" {
		os.WriteFile(*out, b, 0644)
	} else {
		fmt.Println(string(b))
	}
	if len(res.Failures) > 0 {
		os.Exit(1)
	}
}
