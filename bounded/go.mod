module verifbounded

go 1.16

require github.com/goatcms/goatcore v0.0.0

replace github.com/goatcms/goatcore => /repo
