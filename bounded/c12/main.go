// Bounded stand-in for C12 (labelled BOUNDED, never counted as proved; schedules are sampled):
// failure signalling on the real scopes from many goroutines. For each kind of scope - plain
// context scope, isolated context scope, full scope, child sharing its parent's context, child
// with an isolated context - and -rounds rounds: -g goroutines start at once; each appends its
// own distinct errors (singly and several per call, with nil mixed in), some also Kill or Stop
// repeatedly, some read Errors / Err / IsDone / Done meanwhile.
// Oracle: no call panics (a done signal fired twice is a panic of the runtime); every appended
// error is in Errors() afterwards, Err() is not nil, the done channel is closed, Wait and Close
// of a full scope report an error; creating and closing children of the scope once it is done,
// from all goroutines at once, neither panics nor keeps the parent's Close from returning.
//
//	c12 -g 8 -rounds 40 -out <json>
package main

import (
	"encoding/json"
	"flag"
	"fmt"
	"os"
	"sync"
	"time"

	"github.com/goatcms/goatcore/app"
	"github.com/goatcms/goatcore/app/scope"
	"github.com/goatcms/goatcore/app/scope/contextscope"
)

type failure struct {
	Check string `json:"check"`
	Input string `json:"input"`
	What  string `json:"what"`
}

type result struct {
	Bound     string    `json:"bound"`
	Cases     int       `json:"cases"`
	Nontriv   int       `json:"distinct_nontrivial"`
	Samples   []string  `json:"samples"`
	Failures  []failure `json:"failures"`
	Exhausted bool      `json:"exhaustive"`
	WallS     float64   `json:"wall_s"`
}

var res result
var resMu sync.Mutex

func add(check, in, what string) {
	resMu.Lock()
	defer resMu.Unlock()
	if len(res.Failures) < 6 {
		res.Failures = append(res.Failures, failure{check, in, what})
	}
}

func full() bool {
	resMu.Lock()
	defer resMu.Unlock()
	return len(res.Failures) >= 6
}

func parallel(id string, n int, f func(g int)) bool {
	start := make(chan struct{})
	var wg sync.WaitGroup
	for g := 0; g < n; g++ {
		g := g
		wg.Add(1)
		go func() {
			defer wg.Done()
			defer func() {
				if r := recover(); r != nil {
					add("no-panic", id, fmt.Sprint(r))
				}
			}()
			<-start
			f(g)
		}()
	}
	close(start)
	fin := make(chan struct{})
	go func() { wg.Wait(); close(fin) }()
	select {
	case <-fin:
		return true
	case <-time.After(20 * time.Second):
		add("no-call-blocks-forever", id, "the goroutines had not finished after 20 s")
		return false
	}
}

type myErr struct{ g, i int }

func (e *myErr) Error() string { return fmt.Sprintf("error %d.%d", e.g, e.i) }

var kinds = []string{"context scope", "isolated context scope", "scope", "child scope sharing the context", "child scope with an isolated context"}

func run(kind, G, round int) {

	id := fmt.Sprintf("%s, round %d, %d goroutines", kinds[kind], round, G)
	var ctx app.ContextScope
	var full app.Scope   // the full scope under test, if any
	var parent app.Scope // its parent, if any
	switch kind {
	case 0:
		ctx = contextscope.New()
	case 1:
		ctx = contextscope.NewIsolated(contextscope.New())
	case 2:
		full = scope.New(scope.Params{})
	case 3:
		parent = scope.New(scope.Params{})
		full = scope.NewChild(parent, scope.ChildParams{})
	case 4:
		parent = scope.New(scope.Params{})
		full = scope.NewChild(parent, scope.ChildParams{ContextScope: contextscope.NewIsolated(parent.BaseContextScope())})
	}
	if full != nil {
		ctx = full
	}
	if round == 0 && kind <= 1 {
		// a deterministic prelude on a context scope of its own: one appended error is retained,
		// reported, and fires the done signal
		var c app.ContextScope = contextscope.New()
		if kind == 1 {
			c = contextscope.NewIsolated(contextscope.New())
		}
		e := &myErr{-1, 0}
		c.AppendError(e)
		if l := c.Errors(); len(l) != 1 || l[0] != error(e) {
			add("every-appended-error-is-retained", kinds[kind]+", a single AppendError", fmt.Sprintf("Errors() = %v", l))
		}
		if c.Err() == nil {
			add("errors-are-reported", kinds[kind]+", a single AppendError", "Err() is nil")
		}
		if !c.IsDone() {
			add("done-signal-fires", kinds[kind]+", a single AppendError", "IsDone() is false")
		}
	}
	const perG = 6
	errs := make([][]error, G)
	for g := range errs {
		for i := 0; i < perG; i++ {
			errs[g] = append(errs[g], &myErr{g, i})
		}
	}
	if !parallel(id, G, func(g int) {
		e := errs[g]
		switch g % 4 {
		case 0:
			ctx.AppendError(e[0])
			ctx.Kill()
			ctx.AppendError(e[1], nil, e[2])
			ctx.Kill()
			ctx.AppendError(e[3], e[4], e[5])
		case 1:
			ctx.Stop()
			ctx.AppendError(e[0], e[1])
			ctx.Stop()
			ctx.AppendError(nil)
			ctx.AppendError(e[2], e[3], e[4], e[5])
		case 2:
			for i := 0; i < perG; i++ {
				ctx.AppendError(e[i])
				_ = ctx.Errors()
				_ = ctx.IsDone()
			}
		case 3:
			ctx.AppendError(e...)
			_ = ctx.Err()
			select {
			case <-ctx.Done():
			case <-time.After(5 * time.Second):
				add("done-signal-fires", id, "Done() not closed 5 s after an error was appended")
			}
			ctx.Stop()
			ctx.Kill()
		}
	}) {
		return
	}
	got := map[error]int{}
	for _, e := range ctx.Errors() {
		got[e]++
	}
	for g := range errs {
		for _, e := range errs[g] {
			if got[e] == 0 {
				add("every-appended-error-is-retained", id, fmt.Sprintf("%v is missing from Errors() (%d entries)", e, len(ctx.Errors())))
			}
		}
	}
	if ctx.Err() == nil {
		add("errors-are-reported", id, "Err() is nil")
	}
	if !ctx.IsDone() {
		add("done-signal-fires", id, "IsDone() is false")
	}
	select {
	case <-ctx.Done():
	default:
		add("done-signal-fires", id, "Done() is not closed")
	}
	if full == nil {
		return
	}
	// children of a scope that is already done, from all goroutines at once
	if !parallel(id+", then children of the done scope", G, func(g int) {
		for i := 0; i < 3; i++ {
			var c app.Scope
			if (g+i)%2 == 0 {
				c = scope.NewChild(full, scope.ChildParams{})
			} else {
				c = scope.NewChild(full, scope.ChildParams{ContextScope: contextscope.NewIsolated(full.BaseContextScope())})
			}
			c.Close()
		}
	}) {
		return
	}
	fin := make(chan error, 2)
	go func() {
		defer func() {
			if r := recover(); r != nil {
				add("no-panic", id, fmt.Sprint(r))
				fin <- nil
			}
		}()
		werr := full.Wait()
		cerr := full.Close()
		if werr == nil {
			add("errors-are-reported", id, "Wait() returned nil")
		}
		if cerr == nil {
			add("errors-are-reported", id, "Close() returned nil")
		}
		if parent != nil {
			parent.Close()
		}
		fin <- nil
	}()
	select {
	case <-fin:
	case <-time.After(10 * time.Second):
		add("no-call-blocks-forever", id, "Wait / Close did not return within 10 s after children of the done scope were created and closed")
	}
}

func main() {
	flag.String("input", "", "replay: the recorded input (the bounded space is re-run)")
	out := flag.String("out", "", "result file")
	G := flag.Int("g", 8, "goroutines")
	rounds := flag.Int("rounds", 40, "rounds per kind of scope")
	flag.Parse()
	start := time.Now()
	res.Bound = fmt.Sprintf("5 kinds of scope x %d rounds x %d goroutines appending 6 errors each, killing, stopping and reading at once; then 3 children per goroutine of the done scope (schedules sampled by the Go scheduler)", *rounds, *G)
	for r := 0; r < *rounds && !full(); r++ {
		for k := range kinds {
			run(k, *G, r)
			res.Cases++
		}
	}
	res.Nontriv = res.Cases
	res.Exhausted = false
	res.WallS = time.Since(start).Seconds()
	b, _ := json.MarshalIndent(res, "", " ")
	if *out != "" {
		os.WriteFile(*out, b, 0644)
	} else {
		fmt.Println(string(b))
	}
	if len(res.Failures) > 0 {
		os.Exit(1)
	}
}
