// Bounded stand-in for C15 (labelled BOUNDED, never counted as proved): the real shared mutex.
// Lock maps over -res resource names with each name absent, read or write.
// (1) Every ordered pair of maps: the first holder keeps its locks; if the maps conflict (a
// common name with at least one write) the second Lock is still blocked after a grace period and
// returns after the first holder unlocks; if they do not conflict the second Lock returns while
// the first still holds (not serialised).
// (2) Every triple of maps (-reps times), all holders started at once, each locking, checking
// the occupancy of its resources (a writer alone, readers only with readers), and unlocking:
// all finish (no deadlock), no occupancy check fails.
//
//	c15 -res 2 -reps 3 -out <json>
package main

import (
	"encoding/json"
	"flag"
	"fmt"
	"os"
	"sort"
	"strings"
	"sync"
	"time"

	"github.com/goatcms/goatcore/app/modules/commonm/commservices"
	"github.com/goatcms/goatcore/app/modules/commonm/commservices/mutex"
)

type failure struct {
	Check string `json:"check"`
	Input string `json:"input"`
	What  string `json:"what"`
}

type result struct {
	Bound     string    `json:"bound"`
	Cases     int       `json:"cases"`
	Nontriv   int       `json:"distinct_nontrivial"`
	Samples   []string  `json:"samples"`
	Failures  []failure `json:"failures"`
	Exhausted bool      `json:"exhaustive"`
	WallS     float64   `json:"wall_s"`
}

var res result
var resMu sync.Mutex

func add(check, in, what string) {
	resMu.Lock()
	defer resMu.Unlock()
	if len(res.Failures) < 6 {
		res.Failures = append(res.Failures, failure{check, in, what})
	}
}

var resNames = []string{"a", "b", "c"}

// a lock map as a vector: 0 absent, 1 read, 2 write
type lm []int

func (m lm) String() string {
	var p []string
	for i, v := range m {
		switch v {
		case 1:
			p = append(p, resNames[i]+":r")
		case 2:
			p = append(p, resNames[i]+":w")
		}
	}
	return "{" + strings.Join(p, ",") + "}"
}

func (m lm) real() commservices.LockMap {
	out := commservices.LockMap{}
	for i, v := range m {
		switch v {
		case 1:
			out[resNames[i]] = commservices.LockR
		case 2:
			out[resNames[i]] = commservices.LockRW
		}
	}
	return out
}

func conflict(a, b lm) bool {
	for i := range a {
		if a[i] != 0 && b[i] != 0 && (a[i] == 2 || b[i] == 2) {
			return true
		}
	}
	return false
}

func allMaps(n int) []lm {
	out := []lm{{}}
	for i := 0; i < n; i++ {
		var next []lm
		for _, m := range out {
			for v := 0; v <= 2; v++ {
				next = append(next, append(append(lm{}, m...), v))
			}
		}
		out = next
	}
	return out
}

func pair(a, b lm) {
	id := fmt.Sprintf("first holder %s, second %s", a, b)
	sm := mutex.NewSharedMutex()
	h1 := sm.Lock(a.real())
	got := make(chan commservices.UnlockHandler, 1)
	go func() {
		defer func() {
			if r := recover(); r != nil {
				add("no-panic", id, fmt.Sprint(r))
				got <- nil
			}
		}()
		got <- sm.Lock(b.real())
	}()
	if conflict(a, b) {
		select {
		case h2 := <-got:
			add("conflicting-holders-exclude", id, "the second Lock returned while the first holder still held its locks")
			if h2 != nil {
				h2.Unlock()
			}
			h1.Unlock()
			return
		case <-time.After(15 * time.Millisecond):
		}
		h1.Unlock()
		select {
		case h2 := <-got:
			if h2 != nil {
				h2.Unlock()
			}
		case <-time.After(5 * time.Second):
			add("everyone-gets-a-turn", id, "the second Lock did not return within 5 s after the first holder unlocked")
		}
		return
	}
	select {
	case h2 := <-got:
		if h2 != nil {
			h2.Unlock()
		}
	case <-time.After(5 * time.Second):
		add("non-conflicting-holders-not-serialised", id, "the second Lock did not return within 5 s although the maps do not conflict")
	}
	h1.Unlock()
}

func triple(ms []lm) {
	var names []string
	for _, m := range ms {
		names = append(names, m.String())
	}
	id := "holders started at once: " + strings.Join(names, " ")
	sm := mutex.NewSharedMutex()
	var occMu sync.Mutex
	occ := make([]int, len(resNames)) // -1 writer inside, n>0 readers inside
	start := make(chan struct{})
	var wg sync.WaitGroup
	for _, m := range ms {
		m := m
		wg.Add(1)
		go func() {
			defer wg.Done()
			defer func() {
				if r := recover(); r != nil {
					add("no-panic", id, fmt.Sprint(r))
				}
			}()
			<-start
			for round := 0; round < 3; round++ {
				h := sm.Lock(m.real())
				occMu.Lock()
				for i, v := range m {
					switch v {
					case 1:
						if occ[i] < 0 {
							add("writers-exclude-everyone", id, fmt.Sprintf("%s entered with read access to %s while a writer was inside", m, resNames[i]))
						}
						occ[i]++
					case 2:
						if occ[i] != 0 {
							add("writers-exclude-everyone", id, fmt.Sprintf("%s entered with write access to %s while it was occupied (%d)", m, resNames[i], occ[i]))
						}
						occ[i] = -1
					}
				}
				occMu.Unlock()
				time.Sleep(50 * time.Microsecond)
				occMu.Lock()
				for i, v := range m {
					switch v {
					case 1:
						occ[i]--
					case 2:
						occ[i] = 0
					}
				}
				occMu.Unlock()
				h.Unlock()
			}
		}()
	}
	close(start)
	fin := make(chan struct{})
	go func() { wg.Wait(); close(fin) }()
	select {
	case <-fin:
	case <-time.After(10 * time.Second):
		add("no-deadlock", id, "the holders had not all finished after 10 s")
	}
}

func main() {
	flag.String("input", "", "replay: the recorded input (the bounded space is re-run)")
	out := flag.String("out", "", "result file")
	nres := flag.Int("res", 2, "resource names")
	reps := flag.Int("reps", 3, "repetitions of every triple")
	flag.Parse()
	start := time.Now()
	res.Exhausted = true
	maps := allMaps(*nres)
	sort.Slice(maps, func(i, j int) bool { return maps[i].String() < maps[j].String() })
	res.Bound = fmt.Sprintf("%d lock maps over %d names (absent / read / write); every ordered pair with a 15 ms grace period; every triple started at once, %d repetitions of 3 rounds each", len(maps), *nres, *reps)
	sem := make(chan struct{}, 16)
	var wg sync.WaitGroup
	for _, a := range maps {
		for _, b := range maps {
			res.Cases++
			res.Nontriv++
			wg.Add(1)
			sem <- struct{}{}
			go func(a, b lm) { defer wg.Done(); defer func() { <-sem }(); pair(a, b) }(a, b)
		}
	}
	wg.Wait()
	for r := 0; r < *reps; r++ {
		for _, a := range maps {
			for _, b := range maps {
				for _, c := range maps {
					res.Cases++
					wg.Add(1)
					sem <- struct{}{}
					go func(ms []lm) { defer wg.Done(); defer func() { <-sem }(); triple(ms) }([]lm{a, b, c})
				}
			}
		}
	}
	wg.Wait()
	res.Samples = []string{maps[len(maps)-1].String(), maps[len(maps)/2].String()}
	res.WallS = time.Since(start).Seconds()
	b, _ := json.MarshalIndent(res, "", " ")
	if *out != "" {
		os.WriteFile(*out, b, 0644)
	} else {
		fmt.Println(string(b))
	}
	if len(res.Failures) > 0 {
		os.Exit(1)
	}
}
