// Bounded stand-in for C08 (labelled BOUNDED, never counted as proved; schedules are sampled, the
// configurations are enumerated): the real fsloop.Loop on in-memory trees. Every tree that is a
// parent-closed subset of a fixed universe of -paths paths; directory filter none / rejecting one
// directory; file filter none / rejecting one name; 1..3 consumers, 1..2 producers; no fault, a
// failing callback on each visited path, or a failing listing of each directory; -reps runs each
// with callbacks that yield or sleep according to a hash of the path and the run.
//
// Oracle (statement of C08): without a fault the callbacks receive exactly the accepted files and
// the directories whose whole ancestry is accepted, each once; never more callbacks at once than
// consumers; when Wait returns no callback is running and none starts afterwards; with a fault
// the loop's error list contains the injected error, nothing is delivered twice and nothing
// outside the accepted set is delivered; Wait returns (watchdog).
//
//	c08 -paths 7 -reps 2 -out <json>
package main

import (
	"encoding/json"
	"errors"
	"flag"
	"fmt"
	"hash/fnv"
	"os"
	"runtime"
	"sort"
	"strings"
	"sync"
	"sync/atomic"
	"time"

	"github.com/goatcms/goatcore/filesystem"
	"github.com/goatcms/goatcore/filesystem/filespace/memfs"
	"github.com/goatcms/goatcore/filesystem/fsloop"
)

type failure struct {
	Check string `json:"check"`
	Input string `json:"input"`
	What  string `json:"what"`
}

type result struct {
	Bound     string    `json:"bound"`
	Cases     int       `json:"cases"`
	Nontriv   int       `json:"distinct_nontrivial"`
	Samples   []string  `json:"samples"`
	Failures  []failure `json:"failures"`
	Exhausted bool      `json:"exhaustive"`
	WallS     float64   `json:"wall_s"`
}

var res result
var resMu sync.Mutex

func add(check, in, what string) {
	resMu.Lock()
	defer resMu.Unlock()
	if len(res.Failures) < 6 {
		res.Failures = append(res.Failures, failure{check, in, what})
	}
}

// the universe: directories end with "/"
var universe = []string{"a/", "a/x", "f", "a/d/", "a/d/z", "b/", "b/x", "a/y", "a/d/e/", "g"}

func parent(p string) string {
	p = strings.TrimSuffix(p, "/")
	i := strings.LastIndex(p, "/")
	if i < 0 {
		return ""
	}
	return p[:i+1]
}

type config struct {
	Tree      []string
	DirRej    string // rejected directory ("" none)
	FileRej   string // rejected base name ("" none)
	Consumers int
	Producers int
	FailCB    string // path whose callback fails
	FailList  string // directory whose listing fails ("." the root)
	Rep       int
}

func (c config) String() string {
	b, _ := json.Marshal(c)
	return string(b)
}

type fsIface = filesystem.Filespace

type faultFS struct {
	fsIface
	fail string
}

var errInjected = errors.New("injected failure")

func clean(p string) string {
	p = strings.TrimPrefix(p, "./")
	return strings.Trim(p, "/")
}

func (f *faultFS) ReadDir(p string) ([]os.FileInfo, error) {
	c := clean(p)
	if c == "" {
		c = "."
	}
	if f.fail != "" && c == f.fail {
		return nil, errInjected
	}
	return f.fsIface.ReadDir(p)
}

func expected(c config) (files, dirs map[string]bool) {
	files, dirs = map[string]bool{}, map[string]bool{}
	accepted := func(dir string) bool { // dir with trailing slash; whole ancestry accepted
		for d := dir; d != ""; d = parent(d) {
			if c.DirRej != "" && strings.TrimSuffix(d, "/") == c.DirRej {
				return false
			}
		}
		return true
	}
	for _, p := range c.Tree {
		if strings.HasSuffix(p, "/") {
			if accepted(p) {
				dirs[strings.TrimSuffix(p, "/")] = true
			}
			continue
		}
		if !accepted(parent(p)) {
			continue
		}
		base := p[strings.LastIndex(p, "/")+1:]
		if c.FileRej != "" && base == c.FileRej {
			continue
		}
		files[p] = true
	}
	return
}

func run(c config) {
	id := c.String()
	defer func() {
		if r := recover(); r != nil {
			add("no-panic", id, fmt.Sprint(r))
		}
	}()
	mem, _ := memfs.NewFilespace()
	for _, p := range c.Tree {
		if strings.HasSuffix(p, "/") {
			mem.MkdirAll(p, 0777)
		} else {
			mem.WriteFile(p, []byte(p), 0666)
		}
	}
	var fs filesystem.Filespace = &faultFS{mem, c.FailList}
	var mu sync.Mutex
	seenF, seenD := map[string]int{}, map[string]int{}
	var running, maxRunning, started int32
	cb := func(seen map[string]int) filesystem.LoopOn {
		return func(_ filesystem.Filespace, p string) error {
			n := atomic.AddInt32(&running, 1)
			atomic.AddInt32(&started, 1)
			for {
				m := atomic.LoadInt32(&maxRunning)
				if n <= m || atomic.CompareAndSwapInt32(&maxRunning, m, n) {
					break
				}
			}
			h := fnv.New32a()
			h.Write([]byte(p))
			switch (int(h.Sum32()) + c.Rep) % 4 {
			case 0:
				runtime.Gosched()
			case 1:
				time.Sleep(50 * time.Microsecond)
			case 2:
				time.Sleep(300 * time.Microsecond)
			}
			mu.Lock()
			seen[clean(p)]++
			mu.Unlock()
			atomic.AddInt32(&running, -1)
			if c.FailCB != "" && clean(p) == c.FailCB {
				return errInjected
			}
			return nil
		}
	}
	data := &fsloop.LoopData{
		Filespace:  fs,
		OnFile:     cb(seenF),
		OnDir:      cb(seenD),
		Consumers:  c.Consumers,
		Producents: c.Producers,
	}
	if c.DirRej != "" {
		data.DirFilter = func(_ filesystem.Filespace, p string) bool { return clean(p) != c.DirRej }
	}
	if c.FileRej != "" {
		data.FileFilter = func(_ filesystem.Filespace, p string) bool {
			q := clean(p)
			return q[strings.LastIndex(q, "/")+1:] != c.FileRej
		}
	}
	loop := fsloop.NewLoop(data, nil)
	done := make(chan struct{})
	go func() {
		defer func() {
			if r := recover(); r != nil {
				add("no-panic", id, fmt.Sprint(r))
			}
			close(done)
		}()
		loop.Run("")
		loop.Wait()
	}()
	select {
	case <-done:
	case <-time.After(20 * time.Second):
		add("wait-returns", id, "Run + Wait did not return within 20 s")
		return
	}
	if n := atomic.LoadInt32(&running); n != 0 {
		add("wait-covers-running-callbacks", id, fmt.Sprintf("%d callback(s) still running when Wait returned", n))
	}
	s0 := atomic.LoadInt32(&started)
	time.Sleep(500 * time.Microsecond)
	if s1 := atomic.LoadInt32(&started); s1 != s0 {
		add("wait-covers-running-callbacks", id, fmt.Sprintf("%d callback(s) started after Wait returned", s1-s0))
	}
	limit := c.Consumers
	if limit == 0 || limit > runtime.NumCPU() {
		limit = runtime.NumCPU()
	}
	if int(maxRunning) > limit {
		add("at-most-consumers-callbacks-at-once", id, fmt.Sprintf("%d callbacks ran at once, consumers = %d", maxRunning, limit))
	}
	wantF, wantD := expected(c)
	mu.Lock()
	defer mu.Unlock()
	describe := func(seen map[string]int) string {
		var l []string
		for p, n := range seen {
			l = append(l, fmt.Sprintf("%s x%d", p, n))
		}
		sort.Strings(l)
		return strings.Join(l, ", ")
	}
	for kind, pair := range map[string][2]interface{}{"file": {seenF, wantF}, "directory": {seenD, wantD}} {
		seen, want := pair[0].(map[string]int), pair[1].(map[string]bool)
		for p, n := range seen {
			if n != 1 {
				add("exactly-once", id, fmt.Sprintf("%s callback for %s ran %d times", kind, p, n))
			}
			if !want[p] {
				add("only-accepted-paths", id, fmt.Sprintf("%s callback ran for %s, which the filters exclude (delivered: %s)", kind, p, describe(seen)))
			}
		}
		if c.FailCB == "" && c.FailList == "" {
			for p := range want {
				if seen[p] == 0 {
					add("nothing-skipped", id, fmt.Sprintf("no %s callback for %s (delivered: %s)", kind, p, describe(seen)))
				}
			}
		}
	}
	errs := loop.Errors()
	faultReached := false
	if c.FailCB != "" {
		faultReached = seenF[c.FailCB]+seenD[c.FailCB] > 0
	}
	if c.FailList != "" {
		// the listing is attempted iff the directory is descended into
		faultReached = c.FailList == "." || wantD[c.FailList]
	}
	found := false
	for _, e := range errs {
		if errors.Is(e, errInjected) || (e != nil && strings.Contains(e.Error(), errInjected.Error())) {
			found = true
		}
	}
	if faultReached && !found {
		add("errors-are-reported", id, fmt.Sprintf("the injected failure happened but the loop's error list is %v", errs))
	}
	if c.FailCB == "" && c.FailList == "" && len(errs) != 0 {
		add("no-error-without-fault", id, fmt.Sprintf("error list %v", errs))
	}
}

// full: enough failing inputs are recorded; the rest of the space is skipped (and the run is no
// longer exhaustive), so a tree on which every scenario hangs does not take hours
func full() bool {
	resMu.Lock()
	defer resMu.Unlock()
	return len(res.Failures) >= 6
}

func main() {
	flag.String("input", "", "replay: the recorded input (the bounded space is re-run)")
	out := flag.String("out", "", "result file")
	npaths := flag.Int("paths", 7, "size of the path universe")
	reps := flag.Int("reps", 2, "runs of every configuration")
	flag.Parse()
	start := time.Now()
	uni := universe[:*npaths]
	res.Bound = fmt.Sprintf("parent-closed subsets of %v; directory filter none / one directory rejected; file filter none / base name x rejected; consumers 1..3; producers 1..2; no fault / failing callback on each path / failing listing of each directory and of the root; %d runs each, schedules sampled", uni, *reps)
	var trees [][]string
	for mask := 0; mask < 1<<len(uni); mask++ {
		var t []string
		ok := true
		in := map[string]bool{"": true}
		for i, p := range uni {
			if mask&(1<<i) != 0 {
				if !in[parent(p)] {
					ok = false
					break
				}
				in[p] = true
				t = append(t, p)
			}
		}
		if ok {
			trees = append(trees, t)
		}
	}
	sem := make(chan struct{}, 8)
	var wg sync.WaitGroup
	launch := func(c config) {
		if full() {
			return
		}
		res.Cases++
		if res.Cases%4999 == 0 && len(res.Samples) < 8 {
			res.Samples = append(res.Samples, c.String())
		}
		wg.Add(1)
		sem <- struct{}{}
		go func() { defer wg.Done(); defer func() { <-sem }(); run(c) }()
	}
	for _, t := range trees {
		var dirs []string
		for _, p := range t {
			if strings.HasSuffix(p, "/") {
				dirs = append(dirs, strings.TrimSuffix(p, "/"))
			}
		}
		for _, dr := range append([]string{""}, dirs...) {
			for _, fr := range []string{"", "x"} {
				for cons := 1; cons <= 3; cons++ {
					for prod := 1; prod <= 2; prod++ {
						faults := []config{{}}
						for _, p := range t {
							faults = append(faults, config{FailCB: strings.TrimSuffix(p, "/")})
						}
						for _, d := range append([]string{"."}, dirs...) {
							faults = append(faults, config{FailList: d})
						}
						for _, f := range faults {
							for r := 0; r < *reps; r++ {
								launch(config{Tree: t, DirRej: dr, FileRej: fr, Consumers: cons, Producers: prod, FailCB: f.FailCB, FailList: f.FailList, Rep: r})
							}
						}
					}
				}
			}
		}
	}
	wg.Wait()
	res.Nontriv = res.Cases
	res.Exhausted = false
	res.WallS = time.Since(start).Seconds()
	b, _ := json.MarshalIndent(res, "", " ")
	if *out != "" {
		os.WriteFile(*out, b, 0644)
	} else {
		fmt.Println(string(b))
	}
	if len(res.Failures) > 0 {
		os.Exit(1)
	}
}
