// Bounded stand-in for the clause of C02 that the contracts reduce to assumed host semantics
// (labelled BOUNDED, never counted as proved): on every history of operations whose
// preconditions are met (source exists and has the right kind, destination parent exists,
// destination of a copy is absent) a disk filespace rooted in a fresh temporary directory returns
// the same results and ends with the same tree as the in-memory filespace; outside the
// preconditions neither backend panics. It drives the real diskfs and memfs of /repo on the
// real host file system.
//
//	c02 -len <L> -out <json>
package main

import (
	"encoding/json"
	"flag"
	"fmt"
	"io"
	"os"
	"sort"
	"strings"
	"time"

	"github.com/goatcms/goatcore/filesystem"
	"github.com/goatcms/goatcore/filesystem/filespace/diskfs"
	"github.com/goatcms/goatcore/filesystem/filespace/memfs"
)

type failure struct {
	Check string `json:"check"`
	Input string `json:"input"`
	What  string `json:"what"`
}

type result struct {
	Bound     string    `json:"bound"`
	Cases     int       `json:"cases"`
	Nontriv   int       `json:"distinct_nontrivial"`
	Samples   []string  `json:"samples"`
	Failures  []failure `json:"failures"`
	Exhausted bool      `json:"exhaustive"`
	WallS     float64   `json:"wall_s"`
}

var res result

func add(check string, names []string, what string) {
	if len(res.Failures) < 5 {
		res.Failures = append(res.Failures, failure{check, strings.Join(names, " ; "), what})
	}
}

type op struct {
	name string
	pre  func(tree map[string]string) bool // precondition on the model tree (path -> "" for dir, data for file)
	f    func(fs filesystem.Filespace) (string, error)
}

func snapshot(fs filesystem.Filespace) string {
	var out []string
	var walk func(dir string)
	walk = func(dir string) {
		infos, err := fs.ReadDir(dir)
		if err != nil {
			return
		}
		for _, i := range infos {
			p := i.Name()
			if dir != "" {
				p = dir + "/" + i.Name()
			}
			if i.IsDir() {
				out = append(out, p+"/")
				walk(p)
			} else {
				d, _ := fs.ReadFile(p)
				out = append(out, p+"="+string(d))
			}
		}
	}
	walk("")
	sort.Strings(out)
	return strings.Join(out, " ")
}

func main() {
	L := flag.Int("len", 2, "maximal number of operations of a history")
	input := flag.String("input", "", "replay: the recorded history (the bounded space is re-run)")
	out := flag.String("out", "", "result file")
	flag.Parse()
	_ = input
	start := time.Now()
	res.Exhausted = true
	root, err := os.MkdirTemp("", "verif-c02-")
	if err != nil {
		fmt.Println(err)
		os.Exit(3)
	}
	defer os.RemoveAll(root)
	paths := []string{"a", "a/b", "a/c", "d", "f", "n/m"}
	var ops []op
	for _, p := range paths {
		p := p
		ops = append(ops, op{"WriteFile(" + p + ")", nil, func(fs filesystem.Filespace) (string, error) { return "", fs.WriteFile(p, []byte("w:"+p), 0666) }})
		ops = append(ops, op{"Writer(" + p + ")", nil, func(fs filesystem.Filespace) (string, error) {
			w, err := fs.Writer(p)
			if err != nil {
				return "", err
			}
			io.WriteString(w, "s:"+p)
			return "", w.Close()
		}})
		ops = append(ops, op{"MkdirAll(" + p + ")", nil, func(fs filesystem.Filespace) (string, error) { return "", fs.MkdirAll(p, 0777) }})
		ops = append(ops, op{"Remove(" + p + ")", nil, func(fs filesystem.Filespace) (string, error) { return "", fs.Remove(p) }})
		ops = append(ops, op{"RemoveAll(" + p + ")", nil, func(fs filesystem.Filespace) (string, error) { return "", fs.RemoveAll(p) }})
		ops = append(ops, op{"ReadFile(" + p + ")", nil, func(fs filesystem.Filespace) (string, error) { d, err := fs.ReadFile(p); return string(d), err }})
		ops = append(ops, op{"Query(" + p + ")", nil, func(fs filesystem.Filespace) (string, error) {
			return fmt.Sprint(fs.IsExist(p), fs.IsFile(p), fs.IsDir(p)), nil
		}})
	}
	// read-only probes of paths that descend through a regular file (the host answers these
	// with "not a directory", not with "no such file")
	for _, p := range []string{"f/x", "a/b/z"} {
		p := p
		ops = append(ops, op{"ReadFile(" + p + ")", nil, func(fs filesystem.Filespace) (string, error) { d, err := fs.ReadFile(p); return string(d), err }})
		ops = append(ops, op{"Query(" + p + ")", nil, func(fs filesystem.Filespace) (string, error) {
			return fmt.Sprint(fs.IsExist(p), fs.IsFile(p), fs.IsDir(p)), nil
		}})
	}
	for _, pq := range [][2]string{{"a", "x"}, {"f", "x"}, {"a/b", "d/y"}, {"a", "d/a"}} {
		pq := pq
		ops = append(ops, op{"Copy(" + pq[0] + "," + pq[1] + ")", nil, func(fs filesystem.Filespace) (string, error) { return "", fs.Copy(pq[0], pq[1]) }})
		ops = append(ops, op{"CopyFile(" + pq[0] + "," + pq[1] + ")", nil, func(fs filesystem.Filespace) (string, error) { return "", fs.CopyFile(pq[0], pq[1]) }})
		ops = append(ops, op{"CopyDirectory(" + pq[0] + "," + pq[1] + ")", nil, func(fs filesystem.Filespace) (string, error) { return "", fs.CopyDirectory(pq[0], pq[1]) }})
	}
	var names0 []string
	for _, o := range ops {
		names0 = append(names0, o.name)
	}
	res.Bound = fmt.Sprintf("initial tree {a/b, f, d/}; all histories of up to %d operations from %v on a disk filespace in a fresh temporary directory and on an in-memory filespace; a history stops counting at the first operation whose preconditions are not met", *L, names0)
	var run func(seq []op, L int)
	_ = err
	check := func(seq []op) {
		res.Cases++
		os.RemoveAll(root)
		os.MkdirAll(root, 0777)
		disk, _ := diskfs.NewFilespace(root)
		mem, _ := memfs.NewFilespace()
		for _, fs := range []filesystem.Filespace{disk, mem} {
			fs.WriteFile("a/b", []byte("AB"), 0666)
			fs.WriteFile("f", []byte("F"), 0666)
			fs.MkdirAll("d", 0777)
		}
		var names []string
		for _, o := range seq {
			names = append(names, o.name)
			var mr, dr string
			var me, de error
			func() {
				defer func() {
					if r := recover(); r != nil {
						de = fmt.Errorf("PANIC %v", r)
					}
				}()
				dr, de = o.f(disk)
			}()
			// preconditions (C02): evaluated on the in-memory tree before the operation
			args := strings.Split(strings.TrimSuffix(o.name[strings.Index(o.name, "(")+1:], ")"), ",")
			dest := args[len(args)-1]
			parentOK := true
			if i := strings.LastIndex(dest, "/"); i > 0 {
				parentOK = mem.IsDir(dest[:i])
			}
			kk := o.name[:strings.Index(o.name, "(")]
			pre := true
			switch kk {
			case "WriteFile", "Writer", "MkdirAll":
				pre = parentOK
			case "Copy", "CopyFile", "CopyDirectory":
				pre = parentOK && mem.IsExist(args[0]) && !mem.IsExist(dest)
				if kk == "CopyFile" {
					pre = pre && mem.IsFile(args[0])
				}
				if kk == "CopyDirectory" {
					pre = pre && mem.IsDir(args[0])
				}
			case "Remove", "RemoveAll", "ReadFile":
				pre = mem.IsExist(dest)
			}
			mr, me = o.f(mem)
			if !pre {
				// outside the preconditions: both must fail cleanly; the sequence ends here
				if de != nil && strings.HasPrefix(de.Error(), "PANIC") {
					add("no-panic-outside-preconditions", names, de.Error())
				}
				return
			}
			k := kk
			_ = k
			if (me == nil) != (de == nil) {
				add("same-outcome", names, fmt.Sprintf("memory: %v | disk: %v", me, de))
				return
			}
			if me == nil && mr != dr {
				add("same-result", names, fmt.Sprintf("memory: %q | disk: %q", mr, dr))
				return
			}
			if a, b := snapshot(mem), snapshot(disk); a != b {
				add("same-tree", names, "memory: "+a+" | disk: "+b)
				return
			}
			if o.name == seq[len(seq)-1].name && len(names) == len(seq) {
				res.Nontriv++
			}
		}
	}
	run = func(seq []op, L int) {
		if len(seq) > 0 {
			check(seq)
		}
		if len(seq) == L {
			return
		}
		for _, o := range ops {
			run(append(seq, o), L)
		}
	}
	run(nil, *L)
	res.WallS = time.Since(start).Seconds()
	b, _ := json.MarshalIndent(res, "", " ")
	if *out != "" {
		os.WriteFile(*out, b, 0644)
	} else {
		fmt.Println(string(b))
	}
	if len(res.Failures) > 0 {
		os.RemoveAll(root)
		os.Exit(1)
	}
}
