// Bounded stand-in for the part of C01 that the contracts do not state as one postcondition
// (labelled BOUNDED, never counted as proved): the functional "resolve" relation between a path
// spelling and the node it denotes. For a small tree, every spelling built from the segments
// below (redundant '/', '.', inner and leading '..', leading '/') must denote exactly the node
// its normal form names: reads, queries, listings and stats through any spelling agree with the
// tree, writes through any spelling land on the normal form, invalid spellings fail cleanly and
// change nothing, and the same holds through a child view. It drives the real memfs of /repo.
//
//	c01 -segs <maxsegments> -out <json>
package main

import (
	"encoding/json"
	"flag"
	"fmt"
	"os"
	"sort"
	"strings"
	"time"

	"github.com/goatcms/goatcore/filesystem"
	"github.com/goatcms/goatcore/filesystem/filespace/memfs"
)

type failure struct {
	Check string `json:"check"`
	Input string `json:"input"`
	What  string `json:"what"`
}

type result struct {
	Bound     string    `json:"bound"`
	Cases     int       `json:"cases"`
	Nontriv   int       `json:"distinct_nontrivial"`
	Samples   []string  `json:"samples"`
	Failures  []failure `json:"failures"`
	Exhausted bool      `json:"exhaustive"`
	WallS     float64   `json:"wall_s"`
}

var res result

func add(check, in, what string) {
	if len(res.Failures) < 5 {
		res.Failures = append(res.Failures, failure{check, fmt.Sprintf("%q", in), what})
	}
}

// norm: the reference normal form (independent of path.Clean): "" and "." are dropped, ".."
// pops a segment; above the start it is dropped for a rooted spelling and invalid otherwise.
func norm(p string) (string, bool) {
	n, ok, _ := normClimb(p)
	return n, ok
}

// normClimb also says whether a rooted spelling tried to climb above the root (a view may
// either resolve that inside its root or reject it with an error: both keep it confined)
func normClimb(p string) (string, bool, bool) {
	climbed := false
	rooted := strings.HasPrefix(p, "/")
	var segs []string
	for _, s := range strings.Split(p, "/") {
		switch s {
		case "", ".":
		case "..":
			if len(segs) > 0 {
				segs = segs[:len(segs)-1]
			} else if !rooted {
				return "", false, false
			} else {
				climbed = true
			}
		default:
			segs = append(segs, s)
		}
	}
	return strings.Join(segs, "/"), true, climbed
}

var files = map[string]string{"f": "F-data", "a/b": "AB-data", "b/a/b": "BAB-data", "a/c": "AC-data"}
var dirs = map[string][]string{"": {"a", "b", "f"}, "a": {"b", "c"}, "b": {"a"}, "b/a": {"b"}}

func build() filesystem.Filespace {
	fs, err := memfs.NewFilespace()
	if err != nil {
		panic(err)
	}
	for p, d := range files {
		if err := fs.WriteFile(p, []byte(d), 0666); err != nil {
			panic(err)
		}
	}
	return fs
}

func snapshot(fs filesystem.Filespace) string {
	var out []string
	var walk func(dir string)
	walk = func(dir string) {
		infos, err := fs.ReadDir(dir)
		if err != nil {
			out = append(out, dir+": "+err.Error())
			return
		}
		for _, i := range infos {
			p := i.Name()
			if dir != "" {
				p = dir + "/" + i.Name()
			}
			if i.IsDir() {
				out = append(out, p+"/")
				walk(p)
			} else {
				d, _ := fs.ReadFile(p)
				out = append(out, p+"="+string(d))
			}
		}
	}
	walk("")
	sort.Strings(out)
	return strings.Join(out, " ")
}

func names(fs filesystem.Filespace, q string) ([]string, error) {
	infos, err := fs.ReadDir(q)
	if err != nil {
		return nil, err
	}
	var n []string
	for _, i := range infos {
		n = append(n, i.Name())
	}
	sort.Strings(n)
	return n, nil
}

func checkRead(fs filesystem.Filespace, view string, q string, want0 string) {
	defer func() {
		if r := recover(); r != nil {
			add("no-panic", view+"|"+q, fmt.Sprint("panic: ", r))
		}
	}()
	res.Cases++
	n, ok, climbed := normClimb(q)
	full := n
	if view != "" && ok {
		if n == "" {
			full = view
		} else {
			full = view + "/" + n
		}
	}
	data, rerr := fs.ReadFile(q)
	isFile, isDir, isExist := fs.IsFile(q), fs.IsDir(q), fs.IsExist(q)
	info, lerr := fs.Lstat(q)
	rejected := rerr != nil && !isFile && !isDir && !isExist && lerr != nil
	switch {
	case view != "" && climbed && rejected:
		// a view may refuse a spelling that climbs above its root instead of resolving it
	case !ok:
		if rerr == nil || isFile || isDir || isExist || lerr == nil {
			add("invalid-spelling-rejected", view+"|"+q, fmt.Sprintf("ReadFile err=%v IsFile=%v IsDir=%v IsExist=%v Lstat err=%v", rerr, isFile, isDir, isExist, lerr))
		}
	default:
		res.Nontriv++
		if d, isF := files[full]; isF {
			if rerr != nil || string(data) != d || !isFile || isDir || !isExist || lerr != nil || info.IsDir() || info.Name() != full[strings.LastIndex(full, "/")+1:] {
				add("file-by-any-spelling", view+"|"+q, fmt.Sprintf("denotes file %q: ReadFile=%q,%v IsFile=%v IsDir=%v IsExist=%v Lstat=%v,%v", full, data, rerr, isFile, isDir, isExist, info, lerr))
			}
		} else if kids, isD := dirs[full]; isD {
			got, derr := names(fs, q)
			if derr != nil || fmt.Sprint(got) != fmt.Sprint(kids) || rerr == nil || isFile {
				add("dir-by-any-spelling", view+"|"+q, fmt.Sprintf("denotes directory %q: ReadDir=%v,%v want %v; ReadFile err=%v IsFile=%v", full, got, derr, kids, rerr, isFile))
			}
			if full != "" && n != "" && (!isDir || !isExist) {
				add("dir-by-any-spelling", view+"|"+q, fmt.Sprintf("denotes directory %q: IsDir=%v IsExist=%v", full, isDir, isExist))
			}
		} else {
			if rerr == nil || isFile || isDir || isExist || lerr == nil {
				add("absent-by-any-spelling", view+"|"+q, fmt.Sprintf("denotes nothing (%q): ReadFile err=%v IsFile=%v IsDir=%v IsExist=%v Lstat err=%v", full, rerr, isFile, isDir, isExist, lerr))
			}
		}
	}
	if s := snapshot(fs); view == "" && s != want0 {
		add("queries-change-nothing", q, "tree after the queries: "+s)
	}
}

func checkWrite(q string, base string) {
	defer func() {
		if r := recover(); r != nil {
			add("no-panic", "write|"+q, fmt.Sprint("panic: ", r))
		}
	}()
	res.Cases++
	n, ok := norm(q)
	fs := build()
	err := fs.WriteFile(q, []byte("NEW"), 0666)
	after := snapshot(fs)
	_, isDir := dirs[n]
	conflict := false // a proper prefix of n is a file of the tree
	for f := range files {
		if strings.HasPrefix(n, f+"/") {
			conflict = true
		}
	}
	switch {
	case !ok || isDir || conflict:
		if err == nil || after != base {
			add("bad-write-rejected", q, fmt.Sprintf("normal form %q valid=%v: err=%v tree=%s", n, ok, err, after))
		}
	default:
		res.Nontriv++
		d, rerr := fs.ReadFile(n)
		if err != nil || rerr != nil || string(d) != "NEW" {
			add("write-lands-on-normal-form", q, fmt.Sprintf("normal form %q: WriteFile err=%v, ReadFile(normal form)=%q,%v", n, err, d, rerr))
		}
	}
}

func main() {
	maxSegs := flag.Int("segs", 3, "maximal number of segments of a spelling")
	input := flag.String("input", "", "replay: the recorded input (the bounded space is re-run)")
	out := flag.String("out", "", "result file")
	flag.Parse()
	_ = input
	start := time.Now()
	res.Exhausted = true
	segs := []string{"a", "b", "c", "f", ".", "..", ""}
	res.Bound = fmt.Sprintf("tree %v; all spellings of up to %d segments from %q, with and without a leading '/'; reads and queries on the root filespace and on the child view 'b', writes on fresh copies", files, *maxSegs, segs)
	var spellings []string
	var rec func(cur []string)
	rec = func(cur []string) {
		if len(cur) > 0 {
			p := strings.Join(cur, "/")
			spellings = append(spellings, p, "/"+p)
		}
		if len(cur) == *maxSegs {
			return
		}
		for _, s := range segs {
			rec(append(cur, s))
		}
	}
	rec(nil)
	fs := build()
	base := snapshot(fs)
	view, err := fs.Filespace("b")
	if err != nil {
		add("child-view", "b", err.Error())
	}
	for i, q := range spellings {
		checkRead(fs, "", q, base)
		if view != nil {
			checkRead(view, "b", q, base)
		}
		checkWrite(q, base)
		if i%997 == 3 && len(res.Samples) < 8 {
			n, ok := norm(q)
			res.Samples = append(res.Samples, fmt.Sprintf("%q -> %q valid=%v", q, n, ok))
		}
	}
	res.WallS = time.Since(start).Seconds()
	b, _ := json.MarshalIndent(res, "", " ")
	if *out != "" {
		os.WriteFile(*out, b, 0644)
	} else {
		fmt.Println(string(b))
	}
	if len(res.Failures) > 0 {
		os.Exit(1)
	}
}
