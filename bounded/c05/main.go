// Bounded stand-in for the clauses of C05 that rest on assumed cryptography in the contracts
// (labelled BOUNDED, never counted as proved): with both ciphers (plain AES-GCM and the tagged
// one), for payload sizes around every interesting boundary, whole-file and stream writes read
// back identically through both read paths and all read-buffer sizes; the stored bytes do not
// contain the plaintext and differ between two writes of the same data; and every single-bit
// corruption, every truncation, the empty file and a filespace with another secret or salt are
// answered with an error, never with data and never with a panic. It drives the real encryptfs
// of /repo.
//
//	c05 -max <largest payload> -out <json>
package main

import (
	"bytes"
	"encoding/json"
	"flag"
	"fmt"
	"io"
	"os"
	"time"

	"github.com/goatcms/goatcore/filesystem"
	"github.com/goatcms/goatcore/filesystem/filespace/encryptfs"
	"github.com/goatcms/goatcore/filesystem/filespace/encryptfs/cipherfs"
	"github.com/goatcms/goatcore/filesystem/filespace/encryptfs/cipherfs/aesgcm256cfs"
	"github.com/goatcms/goatcore/filesystem/filespace/encryptfs/cipherfs/extcfs"
	"github.com/goatcms/goatcore/filesystem/filespace/memfs"
)

type failure struct {
	Check string `json:"check"`
	Input string `json:"input"`
	What  string `json:"what"`
}

type result struct {
	Bound     string    `json:"bound"`
	Cases     int       `json:"cases"`
	Nontriv   int       `json:"distinct_nontrivial"`
	Samples   []string  `json:"samples"`
	Failures  []failure `json:"failures"`
	Exhausted bool      `json:"exhaustive"`
	WallS     float64   `json:"wall_s"`
}

var res result

func add(check, in, what string) {
	if len(res.Failures) < 5 {
		res.Failures = append(res.Failures, failure{check, in, what})
	}
	if len(res.Failures) >= 5 {
		// enough failing inputs: stop here (a tree on which every case waits for a blocked call
		// would otherwise take hours); the run is then no longer exhaustive
		res.Exhausted = false
		finish()
	}
}

var (
	outPath   string
	startTime time.Time
)

func finish() {
	res.WallS = time.Since(startTime).Seconds()
	b, _ := json.MarshalIndent(res, "", " ")
	if outPath != "" {
		os.WriteFile(outPath, b, 0644)
	} else {
		fmt.Println(string(b))
	}
	if len(res.Failures) > 0 {
		os.Exit(1)
	}
	os.Exit(0)
}

func payload(n int) []byte {
	b := make([]byte, n)
	for i := range b {
		b[i] = byte('A' + i%23)
	}
	return b
}

// readAll reads through the stream reader with the given buffer size
func readAll(fs filesystem.Filespace, p string, bufSize int) (data []byte, err error) {
	defer func() {
		if r := recover(); r != nil {
			err = fmt.Errorf("PANIC %v", r)
		}
	}()
	rd, err := fs.Reader(p)
	if err != nil {
		return nil, err
	}
	defer rd.Close()
	buf := make([]byte, bufSize)
	for {
		n, rerr := rd.Read(buf)
		data = append(data, buf[:n]...)
		if rerr == io.EOF {
			return data, nil
		}
		if rerr != nil {
			return nil, rerr
		}
		if n == 0 && bufSize == 0 {
			return data, nil
		}
	}
}

func readFile(fs filesystem.Filespace, p string) (data []byte, err error) {
	defer func() {
		if r := recover(); r != nil {
			err = fmt.Errorf("PANIC %v", r)
		}
	}()
	return fs.ReadFile(p)
}

func main() {
	max := flag.Int("max", 64, "largest payload size")
	input := flag.String("input", "", "replay: the recorded input (the bounded space is re-run)")
	out := flag.String("out", "", "result file")
	flag.Parse()
	_ = input
	startTime = time.Now()
	outPath = *out
	res.Exhausted = true
	sizes := []int{0, 1, 2, 11, 12, 13, 15, 16, 17, 31, 32, 33}
	for n := 48; n <= *max; n += 16 {
		sizes = append(sizes, n-1, n, n+1)
	}
	res.Bound = fmt.Sprintf("ciphers aesgcm256cfs and extcfs (default); payload sizes %v; write paths WriteFile and Writer (chunks of 1, 7 and all bytes); read paths ReadFile and Reader (buffers of 1, 5, 16, 4096); every single-bit flip and every truncation of the stored bytes; other secret, other salt", sizes)
	ciphers := map[string]func() cipherfs.Cipher{"aesgcm256cfs": aesgcm256cfs.NewCipher, "extcfs": extcfs.NewDefaultCipher}
	for cname, mk := range ciphers {
		for _, n := range sizes {
			data := payload(n)
			for _, wmode := range []int{0, 1, 7, -1} { // 0: WriteFile; k>0: Writer with chunks of k; -1: Writer, one chunk
				id := fmt.Sprintf("%s size=%d write=%d", cname, n, wmode)
				base, _ := memfs.NewFilespace()
				set := encryptfs.Settings{Secret: []byte("secret-1"), Salt: []byte("salt-1"), Cipher: mk()}
				fs, err := encryptfs.NewEncryptFS(base, set)
				if err != nil {
					add("setup", id, err.Error())
					continue
				}
				write := func(target filesystem.Filespace, name string) error {
					if wmode == 0 {
						return target.WriteFile(name, data, 0666)
					}
					w, err := target.Writer(name)
					if err != nil {
						return err
					}
					chunk := wmode
					if chunk < 0 || chunk > len(data) {
						chunk = len(data)
					}
					for off := 0; off < len(data); off += chunk {
						end := off + chunk
						if end > len(data) {
							end = len(data)
						}
						if _, err := w.Write(data[off:end]); err != nil {
							w.Close()
							return err
						}
						if chunk == 0 {
							break
						}
					}
					return w.Close()
				}
				var werr error
				func() {
					defer func() {
						if r := recover(); r != nil {
							werr = fmt.Errorf("PANIC %v", r)
						}
					}()
					werr = write(fs, "f")
				}()
				res.Cases++
				if werr != nil {
					add("write", id, werr.Error())
					continue
				}
				res.Nontriv++
				// round trip through both read paths
				if got, err := readFile(fs, "f"); err != nil || !bytes.Equal(got, data) {
					add("round-trip ReadFile", id, fmt.Sprintf("got %d bytes, err=%v", len(got), err))
				}
				for _, bs := range []int{1, 5, 16, 4096} {
					res.Cases++
					if got, err := readAll(fs, "f", bs); err != nil || !bytes.Equal(got, data) {
						add("round-trip Reader", fmt.Sprintf("%s buffer=%d", id, bs), fmt.Sprintf("got %d bytes, err=%v", len(got), err))
					}
				}
				stored, _ := base.ReadFile("f")
				if n >= 8 && bytes.Contains(stored, data[:8]) {
					add("secrecy", id, "the stored bytes contain the plaintext")
				}
				// a second write of the same data is stored differently
				if werr = write(fs, "g"); werr == nil {
					stored2, _ := base.ReadFile("g")
					if bytes.Equal(stored, stored2) {
						add("fresh-nonce", id, "two writes of the same data are stored identically")
					}
				}
				// another secret / another salt
				for k, other := range []encryptfs.Settings{{Secret: []byte("secret-2"), Salt: []byte("salt-1"), Cipher: mk()}, {Secret: []byte("secret-1"), Salt: []byte("salt-2"), Cipher: mk()}} {
					res.Cases++
					ofs, _ := encryptfs.NewEncryptFS(base, other)
					if got, err := readFile(ofs, "f"); err == nil {
						add("other-key-rejected", fmt.Sprintf("%s variant=%d", id, k), fmt.Sprintf("ReadFile returned %d bytes without error", len(got)))
					}
					if got, err := readAll(ofs, "f", 16); err == nil {
						add("other-key-rejected", fmt.Sprintf("%s variant=%d (Reader)", id, k), fmt.Sprintf("Reader returned %d bytes without error", len(got)))
					}
				}
				if wmode != 0 && wmode != -1 {
					continue // corruption is exercised once per write path kind
				}
				// every single-bit corruption and every truncation
				tamper := func(kind string, bad []byte) {
					res.Cases++
					// a fresh underlying filespace per case: a handle leaked by a rejected read
					// must not block the next case
					base, _ := memfs.NewFilespace()
					fs, _ := encryptfs.NewEncryptFS(base, set)
					base.WriteFile("t", bad, 0666)
					defer func() {
						// after the rejected reads the file is still writable (nothing was leaked)
						done := make(chan error, 1)
						go func() { done <- base.WriteFile("t", []byte("again"), 0666) }()
						select {
						case err := <-done:
							if err != nil {
								add("writable-after-rejected-read", fmt.Sprintf("%s %s", id, kind), err.Error())
							}
						case <-time.After(2 * time.Second):
							add("writable-after-rejected-read", fmt.Sprintf("%s %s", id, kind), "a later WriteFile of the same path blocks: the rejected read left its handle on the underlying file open")
						}
					}()
					got, err := readFile(fs, "t")
					if err == nil {
						add("corruption-rejected", fmt.Sprintf("%s %s", id, kind), fmt.Sprintf("ReadFile returned %d bytes without error", len(got)))
					} else if len(got) != 0 {
						add("no-data-on-error", fmt.Sprintf("%s %s", id, kind), fmt.Sprintf("ReadFile returned %d bytes with error %v", len(got), err))
					} else if len(err.Error()) > 5 && err.Error()[:5] == "PANIC" {
						add("no-panic", fmt.Sprintf("%s %s", id, kind), err.Error())
					}
					got, err = readAll(fs, "t", 16)
					if err == nil {
						add("corruption-rejected", fmt.Sprintf("%s %s (Reader)", id, kind), fmt.Sprintf("Reader returned %d bytes without error", len(got)))
					} else if len(err.Error()) > 5 && err.Error()[:5] == "PANIC" {
						add("no-panic", fmt.Sprintf("%s %s (Reader)", id, kind), err.Error())
					}
				}
				for i := range stored {
					bad := append([]byte(nil), stored...)
					bad[i] ^= 1 << uint(i%8)
					tamper(fmt.Sprintf("flip byte %d of %d", i, len(stored)), bad)
				}
				for l := 0; l < len(stored); l++ {
					tamper(fmt.Sprintf("truncated to %d of %d", l, len(stored)), stored[:l])
				}
				if len(res.Samples) < 6 {
					res.Samples = append(res.Samples, fmt.Sprintf("%s: %d stored bytes, %d corruptions", id, len(stored), 2*len(stored)))
				}
			}
		}
	}
	finish()
}
