// Bounded stand-in for C04 (labelled BOUNDED, never counted as proved): streams and copies on the
// real backends. (1) Writer: for memory, disk, encrypted and cache-backed filespaces, writing any
// chunking of a payload over a shorter, a longer or no existing file leaves exactly the
// concatenation; Reader returns exactly the stored bytes for all buffer sizes. (2) The copy
// helpers (fshelper.Copy, Copier.Do, StreamCopy) reproduce a source tree byte for byte in every
// destination backend. (3) Fault enumeration: with a single injected I/O failure at every
// position of every copy (any method of the destination or the source, any Write / Read / Close
// of a stream), the helper returns an error or the destination is a complete copy.
//
//	c04 -out <json>
package main

import (
	"encoding/json"
	"errors"
	"flag"
	"fmt"
	"io"
	"os"
	"sort"
	"strings"
	"sync"
	"time"

	"github.com/goatcms/goatcore/filesystem"
	"github.com/goatcms/goatcore/filesystem/filespace/diskfs"
	"github.com/goatcms/goatcore/filesystem/filespace/encryptfs"
	"github.com/goatcms/goatcore/filesystem/filespace/encryptfs/cipherfs/aesgcm256cfs"
	"github.com/goatcms/goatcore/filesystem/filespace/memfs"
	"github.com/goatcms/goatcore/filesystem/fscache"
	"github.com/goatcms/goatcore/filesystem/fshelper"
)

type failure struct {
	Check string `json:"check"`
	Input string `json:"input"`
	What  string `json:"what"`
}

type result struct {
	Bound     string    `json:"bound"`
	Cases     int       `json:"cases"`
	Nontriv   int       `json:"distinct_nontrivial"`
	Samples   []string  `json:"samples"`
	Failures  []failure `json:"failures"`
	Exhausted bool      `json:"exhaustive"`
	WallS     float64   `json:"wall_s"`
}

var res result

func add(check, in, what string) {
	if len(res.Failures) < 6 {
		res.Failures = append(res.Failures, failure{check, in, what})
	}
}

var tmpDirs []string

type backend struct {
	name string
	mk   func() filesystem.Filespace
}

func backends() []backend {
	mem := func() filesystem.Filespace { fs, _ := memfs.NewFilespace(); return fs }
	return []backend{
		{"memory", mem},
		{"disk", func() filesystem.Filespace {
			dir, _ := os.MkdirTemp("", "verif-c04-")
			tmpDirs = append(tmpDirs, dir)
			fs, _ := diskfs.NewFilespace(dir)
			return fs
		}},
		{"encrypted", func() filesystem.Filespace {
			fs, _ := encryptfs.NewEncryptFS(mem(), encryptfs.Settings{Secret: []byte("s"), Salt: []byte("t"), Cipher: aesgcm256cfs.NewCipher()})
			return fs
		}},
		{"cache", func() filesystem.Filespace {
			c, _ := fscache.NewMemCache(mem())
			return c
		}},
	}
}

func payload(n int, seed byte) []byte {
	b := make([]byte, n)
	for i := range b {
		b[i] = seed + byte(i*7%251)
	}
	return b
}

func tree(fs filesystem.Filespace) string {
	var out []string
	var walk func(dir string)
	walk = func(dir string) {
		infos, err := fs.ReadDir(dir)
		if err != nil {
			return
		}
		for _, i := range infos {
			p := i.Name()
			if dir != "" {
				p = dir + "/" + i.Name()
			}
			if i.IsDir() {
				out = append(out, p+"/")
				walk(p)
			} else {
				d, err := fs.ReadFile(p)
				out = append(out, fmt.Sprintf("%s=%d:%x(%v)", p, len(d), sum(d), err))
			}
		}
	}
	walk("")
	sort.Strings(out)
	return strings.Join(out, " ")
}

func sum(d []byte) uint32 {
	var h uint32 = 2166136261
	for _, b := range d {
		h = (h ^ uint32(b)) * 16777619
	}
	return h
}

func source() filesystem.Filespace {
	fs, _ := memfs.NewFilespace()
	fs.WriteFile("a.txt", payload(10, 1), 0666)
	fs.WriteFile("d/b.txt", payload(100000, 2), 0666)
	fs.WriteFile("d/e/c.txt", payload(0, 3), 0666)
	fs.MkdirAll("d/empty", 0777)
	return fs
}

// ---------------- fault injection ----------------

var errInjected = errors.New("injected I/O failure")

type faultFS struct {
	fsIface
	mu    sync.Mutex
	count int
	fail  int // the fail-th counted operation fails (0: never)
}

type fsIface = filesystem.Filespace

func (f *faultFS) tick() error {
	f.mu.Lock()
	defer f.mu.Unlock()
	f.count++
	if f.count == f.fail {
		return errInjected
	}
	return nil
}

func (f *faultFS) MkdirAll(p string, m os.FileMode) error {
	if err := f.tick(); err != nil {
		return err
	}
	return f.fsIface.MkdirAll(p, m)
}
func (f *faultFS) WriteFile(p string, d []byte, m os.FileMode) error {
	if err := f.tick(); err != nil {
		return err
	}
	return f.fsIface.WriteFile(p, d, m)
}
func (f *faultFS) ReadFile(p string) ([]byte, error) {
	if err := f.tick(); err != nil {
		return nil, err
	}
	return f.fsIface.ReadFile(p)
}
func (f *faultFS) ReadDir(p string) ([]os.FileInfo, error) {
	if err := f.tick(); err != nil {
		return nil, err
	}
	return f.fsIface.ReadDir(p)
}
func (f *faultFS) Writer(p string) (filesystem.Writer, error) {
	if err := f.tick(); err != nil {
		return nil, err
	}
	w, err := f.fsIface.Writer(p)
	if err != nil {
		return nil, err
	}
	return &faultWriter{w, f}, nil
}
func (f *faultFS) Reader(p string) (filesystem.Reader, error) {
	if err := f.tick(); err != nil {
		return nil, err
	}
	r, err := f.fsIface.Reader(p)
	if err != nil {
		return nil, err
	}
	return &faultReader{r, f}, nil
}

type faultWriter struct {
	w filesystem.Writer
	f *faultFS
}

func (w *faultWriter) Write(p []byte) (int, error) {
	if err := w.f.tick(); err != nil {
		return 0, err
	}
	return w.w.Write(p)
}
func (w *faultWriter) Close() error {
	if err := w.f.tick(); err != nil {
		w.w.Close()
		return err
	}
	return w.w.Close()
}

type faultReader struct {
	r filesystem.Reader
	f *faultFS
}

func (r *faultReader) Read(p []byte) (int, error) {
	if err := r.f.tick(); err != nil {
		return 0, err
	}
	return r.r.Read(p)
}
func (r *faultReader) Close() error {
	if err := r.f.tick(); err != nil {
		r.r.Close()
		return err
	}
	return r.r.Close()
}

// ---------------- the checks ----------------

func guarded(f func() error) (err error) {
	defer func() {
		if r := recover(); r != nil {
			err = fmt.Errorf("PANIC %v", r)
		}
	}()
	done := make(chan error, 1)
	go func() {
		defer func() {
			if r := recover(); r != nil {
				done <- fmt.Errorf("PANIC %v", r)
			}
		}()
		done <- f()
	}()
	select {
	case err = <-done:
		return err
	case <-time.After(20 * time.Second):
		// the abandoned call may hold a lock of the filespace for ever: everything after it could
		// block too, so the run ends here with this failure
		add("no-hang", currentInput, "a call did not return within 20 s; the run was stopped")
		res.Exhausted = false
		finish()
		return fmt.Errorf("HANG: no return within 20s")
	}
}

func main() {
	input := flag.String("input", "", "replay: the recorded input (the bounded space is re-run)")
	out := flag.String("out", "", "result file")
	flag.Parse()
	_ = input
	startTime = time.Now()
	outPath = *out
	res.Exhausted = true
	defer func() {
		for _, d := range tmpDirs {
			os.RemoveAll(d)
		}
	}()
	res.Bound = "backends memory, disk (temporary directory), encrypted, cache; writer over no / a shorter / a longer existing file with chunkings {all, 1, 3, 3 alternating Write / io.WriteString}; reader buffers 1, 2, 7, 4096; tree copy with fshelper.Copy, Copier.Do and StreamCopy into every backend; one injected failure at every counted I/O operation of destination and of source"
	// (1) writers and readers
	for _, be := range backends() {
		for _, existing := range []int{-1, 3, 40} {
			for _, n := range []int{0, 1, 10, 33} {
				for _, chunk := range []int{0, 1, 3, -3} {
					res.Cases++
					res.Nontriv++
					id := fmt.Sprintf("%s existing=%d payload=%d chunk=%d", be.name, existing, n, chunk)
					currentInput = id
					fs := be.mk()
					if existing >= 0 {
						fs.WriteFile("x/f", payload(existing, 9), 0666)
					} else {
						fs.MkdirAll("x", 0777)
					}
					data := payload(n, 5)
					err := guarded(func() error {
						w, err := fs.Writer("x/f")
						if err != nil {
							return err
						}
						step := chunk
						if step == 0 {
							step = len(data) + 1
						}
						// chunk -3: chunks of 3, alternately through Write and io.WriteString (which uses
						// the writer's own WriteString when it has one): the order of arrival counts
						viaString := false
						if step < 0 {
							step, viaString = -step, true
						}
						// every chunk goes through one reused buffer that is scribbled over
						// right after the call, as io.Copy reuses its buffer: a writer must
						// not keep a reference to what it was handed
						scratch := make([]byte, step)
						for off := 0; off < len(data); off += step {
							end := off + step
							if end > len(data) {
								end = len(data)
							}
							k := copy(scratch, data[off:end])
							if viaString && (off/step)%2 == 1 {
								if _, err := io.WriteString(w, string(scratch[:k])); err != nil {
									w.Close()
									return err
								}
							} else if _, err := w.Write(scratch[:k]); err != nil {
								w.Close()
								return err
							}
							for i := range scratch {
								scratch[i] = 0xEE
							}
						}
						return w.Close()
					})
					if err != nil {
						add("writer", id, err.Error())
						continue
					}
					got, err := fs.ReadFile("x/f")
					if err != nil || string(got) != string(data) {
						add("writer-replaces-content", id, fmt.Sprintf("file holds %d bytes (err=%v), written %d", len(got), err, len(data)))
					}
					for _, bs := range []int{1, 2, 7, 4096} {
						bs := bs
						var acc []byte
						perr := guarded(func() error {
							r, err := fs.Reader("x/f")
							if err != nil {
								return err
							}
							defer r.Close()
							buf := make([]byte, bs)
							for {
								k, rerr := r.Read(buf)
								acc = append(acc, buf[:k]...)
								if rerr == io.EOF {
									return nil
								}
								if rerr != nil {
									return rerr
								}
								if k == 0 && len(acc) >= len(data) {
									return nil
								}
								if len(acc) > len(data)+64 {
									return nil
								}
							}
						})
						if perr != nil {
							add("reader", fmt.Sprintf("%s buffer=%d", id, bs), perr.Error())
							continue
						}
						if string(acc) != string(data) {
							add("reader-exact", fmt.Sprintf("%s buffer=%d", id, bs), fmt.Sprintf("read %d bytes, stored %d", len(acc), len(data)))
						}
					}
				}
			}
		}
	}
	// (2) and (3): tree copies without and with one injected failure
	want := tree(source())
	type helper struct {
		name string
		run  func(src, dest filesystem.Filespace) error
	}
	helpers := []helper{
		{"fshelper.Copy", func(src, dest filesystem.Filespace) error { return fshelper.Copy(src, dest, nil) }},
		{"Copier.Do(d)+StreamCopy(a.txt)", func(src, dest filesystem.Filespace) error {
			if err := (fshelper.Copier{SrcFS: src, SrcPath: "d", DestFS: dest, DestPath: "d"}).Do(); err != nil {
				return err
			}
			return fshelper.StreamCopy(src, dest, "a.txt")
		}},
	}
	for _, be := range backends() {
		for _, h := range helpers {
			res.Cases++
			res.Nontriv++
			currentInput = be.name + " " + h.name
			dest := be.mk()
			counter := &faultFS{fsIface: dest}
			srcCounter := &faultFS{fsIface: source()}
			if err := guarded(func() error { return h.run(srcCounter, counter) }); err != nil {
				add("copy-succeeds", be.name+" "+h.name, err.Error())
				continue
			}
			if got := tree(dest); got != want {
				add("copy-is-byte-exact", be.name+" "+h.name, "destination: "+got+" | source: "+want)
				continue
			}
			nDest, nSrc := counter.count, srcCounter.count
			if len(res.Samples) < 8 {
				res.Samples = append(res.Samples, fmt.Sprintf("%s into %s: %d destination and %d source operations, each failed once", h.name, be.name, nDest, nSrc))
			}
			for side, n := range map[string]int{"destination": nDest, "source": nSrc} {
				for k := 1; k <= n; k++ {
					res.Cases++
					d2 := be.mk()
					fd := &faultFS{fsIface: d2}
					fsrc := &faultFS{fsIface: source()}
					if side == "destination" {
						fd.fail = k
					} else {
						fsrc.fail = k
					}
					err := guarded(func() error { return h.run(fsrc, fd) })
					id := fmt.Sprintf("%s into %s, %s operation %d of %d fails", h.name, be.name, side, k, n)
					currentInput = id
					if err != nil && (strings.HasPrefix(err.Error(), "PANIC") || strings.HasPrefix(err.Error(), "HANG")) {
						add("fault-no-panic-no-hang", id, err.Error())
						continue
					}
					if err == nil {
						if got := tree(d2); got != want {
							add("error-or-complete-copy", id, "the helper returned nil but the destination is "+got)
						}
					}
				}
			}
		}
	}
	finish()
}

var (
	outPath      string
	startTime    time.Time
	currentInput = "(setup)"
)

// finish writes the result and ends the process
func finish() {
	res.WallS = time.Since(startTime).Seconds()
	b, _ := json.MarshalIndent(res, "", " ")
	if outPath != "" {
		os.WriteFile(outPath, b, 0644)
	} else {
		fmt.Println(string(b))
	}
	for _, d := range tmpDirs {
		os.RemoveAll(d)
	}
	if len(res.Failures) > 0 {
		os.Exit(1)
	}
	os.Exit(0)
}
