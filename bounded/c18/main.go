// Bounded stand-in for C18 over the assumed shell semantics of the contracts (labelled BOUNDED,
// never counted as proved): for every value up to a bound over the shell-significant characters,
// the start-up script built by the real dcmd.InitSequence from the real environment store is
// run by /bin/sh and every variable must hold exactly the configured value (up to trailing
// newlines): nothing is expanded, executed or leaks into another variable. Names that are not
// plain identifiers must be rejected by Set.
//
//	c18 -len <maxlen> -out <json>
package main

import (
	"bytes"
	"encoding/json"
	"flag"
	"fmt"
	"io"
	"os"
	"os/exec"
	"strings"
	"time"

	"github.com/goatcms/goatcore/app/modules/commonm/commservices/envs"
	"github.com/goatcms/goatcore/app/modules/ocm/ocservices/dcmd"
)

type failure struct {
	Check string `json:"check"`
	Input string `json:"input"`
	What  string `json:"what"`
}

type result struct {
	Bound     string    `json:"bound"`
	Cases     int       `json:"cases"`
	Nontriv   int       `json:"distinct_nontrivial"`
	Samples   []string  `json:"samples"`
	Failures  []failure `json:"failures"`
	Exhausted bool      `json:"exhaustive"`
	WallS     float64   `json:"wall_s"`
}

var res result

func add(check, in, what string) {
	if len(res.Failures) < 5 {
		res.Failures = append(res.Failures, failure{check, in, what})
	}
}

var alphabet = []string{"$", "`", "\"", "'", "\\", "\n", " ", "E", "O", "F", "a", ";", "(", ")", "#", "!", "*", "{", "}", "$(id)", "`id`", "$HOME", "${A}"}

func names(n int) []string {
	var out []string
	for i := 0; i < n; i++ {
		out = append(out, "V"+string(rune('a'+i/26))+string(rune('a'+i%26)))
	}
	return out
}

func runBatch(vals []string) {
	e := envs.NewEnvironments()
	ns := names(len(vals))
	for i, v := range vals {
		if err := e.Set(ns[i], v); err != nil {
			add("set-accepts-identifier", fmt.Sprintf("%s=%q", ns[i], v), err.Error())
			return
		}
	}
	rd, err := dcmd.InitSequence(e)
	if err != nil {
		add("init-sequence", fmt.Sprintf("%q", vals), err.Error())
		return
	}
	script, _ := io.ReadAll(rd)
	var sb bytes.Buffer
	sb.Write(script)
	sb.WriteString("\nset +e\n")
	for _, n := range ns {
		fmt.Fprintf(&sb, "printf '%%s\\0' \"$%s\"\n", n)
	}
	cmd := exec.Command("/bin/sh")
	cmd.Stdin = &sb
	cmd.Env = []string{"PATH=/usr/bin:/bin", "HOME=/nonexistent-home", "A=leaked-A"}
	var stdout, stderr bytes.Buffer
	cmd.Stdout, cmd.Stderr = &stdout, &stderr
	rerr := cmd.Run()
	parts := strings.Split(stdout.String(), "\x00")
	if rerr != nil || len(parts) != len(vals)+1 {
		add("script-runs", fmt.Sprintf("%q", vals), fmt.Sprintf("err=%v stderr=%q fields=%d", rerr, stderr.String(), len(parts)-1))
		return
	}
	for i, v := range vals {
		res.Cases++
		want := strings.TrimRight(v, "\n")
		if parts[i] != want {
			add("value-verbatim", fmt.Sprintf("%s=%q", ns[i], v), fmt.Sprintf("the shell holds %q", parts[i]))
		} else if strings.ContainsAny(v, "$`\\\"'") {
			res.Nontriv++
		}
	}
}

func main() {
	L := flag.Int("len", 2, "maximal number of alphabet elements per value")
	input := flag.String("input", "", "replay: the recorded input (the bounded space is re-run)")
	out := flag.String("out", "", "result file")
	flag.Parse()
	_ = input
	start := time.Now()
	res.Exhausted = true
	res.Bound = fmt.Sprintf("all values of up to %d elements from %q, 40 variables per script, run by /bin/sh; names with one foreign character rejected", *L, alphabet)
	var vals []string
	var rec func(cur string, d int)
	rec = func(cur string, d int) {
		vals = append(vals, cur)
		if d == *L {
			return
		}
		for _, c := range alphabet {
			rec(cur+c, d+1)
		}
	}
	rec("", 0)
	for i := 0; i < len(vals); i += 40 {
		end := i + 40
		if end > len(vals) {
			end = len(vals)
		}
		runBatch(vals[i:end])
		if len(res.Samples) < 5 {
			res.Samples = append(res.Samples, fmt.Sprintf("%q", vals[i:end][len(vals[i:end])/2]))
		}
	}
	// names that are not plain identifiers are rejected when they are set
	for _, bad := range []string{"A B", "A;B", "A$B", "A`B`", "A=B", "A\nB", "1A", "A-B", "A(B)", "A'B", "A\"B", "A\\B", "A.B", "", "A[B]", "A^B", "A{B}"} {
		res.Cases++
		e := envs.NewEnvironments()
		if err := e.Set(bad, "v"); err == nil {
			add("name-rejected", fmt.Sprintf("%q", bad), "Set accepted the name")
		}
		if err := e.SetAll(map[string]string{"OK": "v", bad: "v"}); err == nil {
			add("name-rejected", fmt.Sprintf("%q (SetAll)", bad), "SetAll accepted the name")
		} else if e.Get("OK") != "" {
			add("setall-all-or-nothing", fmt.Sprintf("%q (SetAll)", bad), "SetAll stored a valid name although another one was rejected")
		}
	}
	res.WallS = time.Since(start).Seconds()
	b, _ := json.MarshalIndent(res, "", " ")
	if *out != "" {
		os.WriteFile(*out, b, 0644)
	} else {
		fmt.Println(string(b))
	}
	if len(res.Failures) > 0 {
		os.Exit(1)
	}
}
