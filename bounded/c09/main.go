// Bounded stand-in for C09 (labelled BOUNDED, never counted as proved; schedules are sampled):
// many goroutines on one real in-memory filespace, -rounds rounds of each of:
// (a) -g goroutines create files (WriteFile, Writer) and directories on distinct paths in shared
//
//	directories: afterwards every one of them is visible with its content;
//
// (b) writers overwrite one file with self-describing values (length and fill byte belong
//
//	together) through WriteFile and through Writer while readers use ReadFile and Reader:
//	every read is one complete written value, and so is the final content;
//
// (c) all goroutines create the same new file / the same new directory chain at once: the parent
//
//	lists the name exactly once;
//
// (d) listings taken while entries are added and removed name every entry at most once, and a
//
//	listing a caller holds does not change when siblings are removed afterwards;
//
// no call panics; everything finishes within a watchdog period.
//
//	c09 -g 8 -rounds 30 -out <json>
package main

import (
	"encoding/json"
	"flag"
	"fmt"
	"io"
	"os"
	"strings"
	"sync"
	"time"

	"github.com/goatcms/goatcore/filesystem"
	"github.com/goatcms/goatcore/filesystem/filespace/memfs"
)

type failure struct {
	Check string `json:"check"`
	Input string `json:"input"`
	What  string `json:"what"`
}

type result struct {
	Bound     string    `json:"bound"`
	Cases     int       `json:"cases"`
	Nontriv   int       `json:"distinct_nontrivial"`
	Samples   []string  `json:"samples"`
	Failures  []failure `json:"failures"`
	Exhausted bool      `json:"exhaustive"`
	WallS     float64   `json:"wall_s"`
}

var res result
var resMu sync.Mutex

func add(check, in, what string) {
	resMu.Lock()
	defer resMu.Unlock()
	if len(res.Failures) < 6 {
		res.Failures = append(res.Failures, failure{check, in, what})
	}
}

func full() bool {
	resMu.Lock()
	defer resMu.Unlock()
	return len(res.Failures) >= 6
}

// parallel runs the functions at once and waits for them under a watchdog
func parallel(id string, fs []func()) bool {
	start := make(chan struct{})
	var wg sync.WaitGroup
	for _, f := range fs {
		f := f
		wg.Add(1)
		go func() {
			defer wg.Done()
			defer func() {
				if r := recover(); r != nil {
					add("no-panic", id, fmt.Sprint(r))
				}
			}()
			<-start
			f()
		}()
	}
	close(start)
	fin := make(chan struct{})
	go func() { wg.Wait(); close(fin) }()
	select {
	case <-fin:
		return true
	case <-time.After(20 * time.Second):
		add("no-call-blocks-forever", id, "the goroutines had not finished after 20 s")
		return false
	}
}

func value(g int) []byte {
	return []byte(strings.Repeat(string(rune('a'+g)), 10+g*7))
}

func complete(b []byte) bool {
	if len(b) == 0 {
		return false
	}
	g := int(b[0] - 'a')
	if g < 0 || g > 25 || len(b) != 10+g*7 {
		return false
	}
	for _, c := range b {
		if c != b[0] {
			return false
		}
	}
	return true
}

func names(infos []os.FileInfo) []string {
	var out []string
	for _, i := range infos {
		out = append(out, i.Name())
	}
	return out
}

func dup(l []string) string {
	seen := map[string]bool{}
	for _, n := range l {
		if seen[n] {
			return n
		}
		seen[n] = true
	}
	return ""
}

func roundDistinct(G, round int) {
	id := fmt.Sprintf("round %d: %d goroutines create distinct paths in shared directories", round, G)
	fs, _ := memfs.NewFilespace()
	fs.MkdirAll("shared/deep", 0777)
	var ops []func()
	for g := 0; g < G; g++ {
		g := g
		ops = append(ops, func() {
			for i := 0; i < 5; i++ {
				if err := fs.WriteFile(fmt.Sprintf("shared/f%d_%d", g, i), value(g), 0666); err != nil {
					add("distinct-paths-take-effect", id, err.Error())
				}
				w, err := fs.Writer(fmt.Sprintf("shared/deep/w%d_%d", g, i))
				if err != nil {
					add("distinct-paths-take-effect", id, err.Error())
					continue
				}
				w.Write(value(g))
				w.Close()
				if err := fs.MkdirAll(fmt.Sprintf("shared/d%d_%d/sub", g, i), 0777); err != nil {
					add("distinct-paths-take-effect", id, err.Error())
				}
			}
		})
	}
	// readers poll the files while they are being created: a file that can be read at all holds
	// the whole value (a new file is never visible empty)
	for g := 0; g < G; g++ {
		g := g
		ops = append(ops, func() {
			for i := 0; i < 5; i++ {
				p := fmt.Sprintf("shared/f%d_%d", g, i)
				for try := 0; try < 2000; try++ {
					b, err := fs.ReadFile(p)
					if err != nil {
						continue
					}
					if string(b) != string(value(g)) {
						add("readers-see-complete-values", id, fmt.Sprintf("%s read while it was created: %d bytes, expected %d", p, len(b), len(value(g))))
					}
					break
				}
			}
		})
	}
	if !parallel(id, ops) {
		return
	}
	for g := 0; g < G; g++ {
		for i := 0; i < 5; i++ {
			for _, p := range []string{fmt.Sprintf("shared/f%d_%d", g, i), fmt.Sprintf("shared/deep/w%d_%d", g, i)} {
				b, err := fs.ReadFile(p)
				if err != nil || string(b) != string(value(g)) {
					add("distinct-paths-take-effect", id, fmt.Sprintf("%s: %d bytes, err %v", p, len(b), err))
				}
			}
			if !fs.IsDir(fmt.Sprintf("shared/d%d_%d/sub", g, i)) {
				add("distinct-paths-take-effect", id, fmt.Sprintf("shared/d%d_%d/sub is missing", g, i))
			}
		}
	}
	for _, d := range []string{"shared", "shared/deep"} {
		l, _ := fs.ReadDir(d)
		if n := dup(names(l)); n != "" {
			add("listing-names-once", id, fmt.Sprintf("%s lists %s twice", d, n))
		}
		want := G*5*2 + 1
		if d == "shared/deep" {
			want = G * 5
		}
		if len(l) != want {
			add("distinct-paths-take-effect", id, fmt.Sprintf("%s lists %d entries, expected %d", d, len(l), want))
		}
	}
}

func roundSameFile(G, round int) {
	id := fmt.Sprintf("round %d: %d writers and %d readers on one file", round, G/2, G-G/2)
	fs, _ := memfs.NewFilespace()
	fs.WriteFile("dir/file", value(0), 0666)
	var ops []func()
	for g := 0; g < G; g++ {
		g := g
		if g%2 == 0 {
			ops = append(ops, func() {
				for i := 0; i < 40; i++ {
					if (i+g/2)%2 == 0 {
						fs.WriteFile("dir/file", value(g/2+1), 0666)
					} else if w, err := fs.Writer("dir/file"); err == nil {
						v := value(g/2 + 1)
						w.Write(v[:len(v)/2])
						w.Write(v[len(v)/2:])
						w.Close()
					}
				}
			})
		} else {
			ops = append(ops, func() {
				for i := 0; i < 40; i++ {
					var b []byte
					var err error
					if i%2 == 0 {
						b, err = fs.ReadFile("dir/file")
					} else {
						var r filesystem.Reader
						if r, err = fs.Reader("dir/file"); err == nil {
							b, err = io.ReadAll(r)
							r.Close()
						}
					}
					if err != nil {
						add("readers-see-complete-values", id, err.Error())
					} else if !complete(b) {
						add("readers-see-complete-values", id, fmt.Sprintf("read %d bytes %q...", len(b), string(b[:min(len(b), 12)])))
					}
				}
			})
		}
	}
	if !parallel(id, ops) {
		return
	}
	b, err := fs.ReadFile("dir/file")
	if err != nil || !complete(b) {
		add("file-holds-one-written-value", id, fmt.Sprintf("final content: %d bytes, err %v", len(b), err))
	}
}

func min(a, b int) int {
	if a < b {
		return a
	}
	return b
}

func roundSameNew(G, round int) {
	id := fmt.Sprintf("round %d: %d goroutines create the same new file and the same new directory chain", round, G)
	fs, _ := memfs.NewFilespace()
	fs.MkdirAll("p", 0777)
	var ops []func()
	for g := 0; g < G; g++ {
		g := g
		ops = append(ops, func() {
			if g%2 == 0 {
				fs.WriteFile("p/newfile", value(g), 0666)
				fs.MkdirAll("p/newdir/x/y", 0777)
			} else {
				fs.MkdirAll("p/newdir/x/y", 0777)
				if w, err := fs.Writer("p/newfile"); err == nil {
					w.Write(value(g))
					w.Close()
				}
			}
			fs.WriteFile(fmt.Sprintf("p/newdir/x/own%d", g), value(g), 0666)
		})
	}
	if !parallel(id, ops) {
		return
	}
	for d, want := range map[string]int{"p": 2, "p/newdir": 1, "p/newdir/x": G + 1} {
		l, err := fs.ReadDir(d)
		if err != nil {
			add("one-node-per-name", id, err.Error())
			continue
		}
		if n := dup(names(l)); n != "" || len(l) != want {
			add("one-node-per-name", id, fmt.Sprintf("%s lists %v", d, names(l)))
		}
	}
	for g := 0; g < G; g++ {
		if b, err := fs.ReadFile(fmt.Sprintf("p/newdir/x/own%d", g)); err != nil || string(b) != string(value(g)) {
			add("distinct-paths-take-effect", id, fmt.Sprintf("p/newdir/x/own%d lost (a concurrent creation of its directory replaced the node): err %v", g, err))
		}
	}
	if b, err := fs.ReadFile("p/newfile"); err != nil || !complete(b) {
		add("file-holds-one-written-value", id, fmt.Sprintf("p/newfile: %d bytes, err %v", len(b), err))
	}
}

func roundListings(G, round int) {
	id := fmt.Sprintf("round %d: listings while %d goroutines add and remove entries", round, G)
	fs, _ := memfs.NewFilespace()
	for i := 0; i < 8; i++ {
		fs.WriteFile(fmt.Sprintf("l/base%d", i), value(i), 0666)
	}
	// a listing a caller holds is a snapshot
	held, _ := fs.ReadDir("l")
	before := strings.Join(names(held), ",")
	// (first without any concurrency: removing a sibling must not rewrite the held listing)
	fs.Remove("l/base0")
	if after := strings.Join(names(held), ","); after != before {
		add("listing-is-a-snapshot", id, "a listing held by its caller changed from "+before+" to "+after+" when l/base0 was removed")
	}
	var ops []func()
	for g := 0; g < G; g++ {
		g := g
		ops = append(ops, func() {
			for i := 0; i < 20; i++ {
				p := fmt.Sprintf("l/t%d_%d", g, i)
				fs.WriteFile(p, value(g), 0666)
				l, err := fs.ReadDir("l")
				if err != nil {
					add("listing-names-once", id, err.Error())
				} else if n := dup(names(l)); n != "" {
					add("listing-names-once", id, "a listing names "+n+" twice")
				}
				fs.Remove(p)
				if g == 0 && i < 4 {
					fs.Remove(fmt.Sprintf("l/base%d", i))
				}
			}
		})
	}
	if !parallel(id, ops) {
		return
	}
	if after := strings.Join(names(held), ","); after != before {
		add("listing-is-a-snapshot", id, "a listing held by its caller changed from "+before+" to "+after)
	}
	l, _ := fs.ReadDir("l")
	if len(l) != 4 || dup(names(l)) != "" {
		add("distinct-paths-take-effect", id, fmt.Sprintf("final listing %v, expected base4..base7", names(l)))
	}
}

func main() {
	flag.String("input", "", "replay: the recorded input (the bounded space is re-run)")
	out := flag.String("out", "", "result file")
	G := flag.Int("g", 8, "goroutines")
	rounds := flag.Int("rounds", 30, "rounds of each kind")
	flag.Parse()
	start := time.Now()
	res.Bound = fmt.Sprintf("%d goroutines, %d rounds each of: distinct paths in shared directories; writers and readers on one file; simultaneous creation of the same file and directory chain; listings under adds and removes (schedules sampled by the Go scheduler)", *G, *rounds)
	for r := 0; r < *rounds && !full(); r++ {
		roundDistinct(*G, r)
		roundSameFile(*G, r)
		roundSameNew(*G, r)
		roundListings(*G, r)
		res.Cases += 4
	}
	res.Nontriv = res.Cases
	res.Exhausted = false
	res.WallS = time.Since(start).Seconds()
	b, _ := json.MarshalIndent(res, "", " ")
	if *out != "" {
		os.WriteFile(*out, b, 0644)
	} else {
		fmt.Println(string(b))
	}
	if len(res.Failures) > 0 {
		os.Exit(1)
	}
}
